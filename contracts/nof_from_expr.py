"""Contract of NumberOrderedForm.from_expr (C08: "conversion to number-ordered form ... denote[s] the same operator as the original expression").

from_expr is a structural recursion over the sympy expression.  The unit proves ONE level of it for every kind of node, the recursive calls being replaced by their
contract (`conv(sub)`: the form that denotes `sub` on the same operator list) - i.e. the inductive step of

    from_expr is the homomorphism of (+, *, **, f(.)) that sends every generator to its one-term form:

  * a NumberOrderedForm is returned as it is; what is not an expression is sympified first (ValueError if that fails);
  * an expression without operators is the one-term form (0, ..., 0) -> expr on the given operators (none if none were given);
  * operators default to find_operators(expr) - only then, and before any recursion;
  * Add(t_1, ..., t_n)  ->  ((empty form + conv(t_1)) + ...) + conv(t_n);
  * Mul(f_1, ..., f_n)  ->  (conv(f_1) * conv(f_2)) * ... * conv(f_n)        IN ARGUMENT ORDER (the algebra is non-commutative);
  * Pow(c, n), c a generator or its adjoint, n a positive integer  ->  the one-term form with power +n (annihilation) / -n (creation) at the operator's position, coefficient One;
    any other Pow(b, e)  ->  conv(b) ** e;
  * f(x_1, ..., x_n)  ->  ValueError unless every conv(x_i) is particle conserving; then the one-term form (0, ..., 0) -> f(c_1, ..., c_n), c_i the constant of conv(x_i) (Zero if it has no term);
  * a generator c / its adjoint  ->  power +1 / -1 at its position, coefficient One; ValueError if the annihilation operator is not in the list;
  * sigma_z -> 2 N - 1 at the zero key; sigma_x -> s + s^+; sigma_y -> i s - i s^+ (s = SigmaMinus of the same name);   NumberOperator -> its placeholder at the zero key;
  * anything else -> ValueError.
All forms are built on the SAME operator list that the recursive calls receive.
"""
from __future__ import annotations

import ast

import z3

from pyvc import frontend
from pyvc.core import Closure, Env, STup, SI, SB, SExc, Model, Builtin, Namespace, TypeObj, PyRaise, Unsupported, zi
from pyvc.unit import run_unit
from contracts.formats import T

MODULE = "number_ordered_form"

GEN = {"BosonOp": "boson", "LadderOp": "ladder", "SigmaMinus": "spin", "FermionOp": "fermion"}


class Form(Model):
    """abstract form: a term over conv / sum / prod / pow / one-term constructors"""

    def __init__(self, head, *args):
        self.head, self.args = head, args

    def __repr__(self):
        return f"{self.head}({', '.join(map(repr, self.args))})"

    def m_isinstance(self, eng, clsname):
        return clsname in ("NumberOrderedForm", "Expr", "Basic")

    def m_binop(self, eng, op, other, reflected):
        l, r = (other, self) if reflected else (self, other)
        if isinstance(op, ast.Add) and isinstance(other, Form):
            return Form("sum", l, r)
        if isinstance(op, ast.Mult) and isinstance(other, Form):
            return Form("prod", l, r)
        if isinstance(op, ast.Pow) and not reflected:
            return Form("pow", self, other)
        return NotImplemented


def same(a, b):
    if isinstance(a, Form) and isinstance(b, Form):
        return a.head == b.head and len(a.args) == len(b.args) and all(same(x, y) for x, y in zip(a.args, b.args))
    if isinstance(a, (list, tuple)) and isinstance(b, (list, tuple)):
        return len(a) == len(b) and all(same(x, y) for x, y in zip(a, b))
    return a is b or (type(a) is type(b) and isinstance(a, (int, str)) and a == b)


class Exp(Model):
    """exponent of a Pow: integer / positive decided by the environment"""

    def __init__(self, eng):
        self.n = eng.fresh("exponent")
        self.is_int = eng.fresh("exponent_is_integer", "bool")
        self.is_pos = eng.fresh("exponent_is_positive", "bool")

    def m_getattr(self, eng, name):
        if name == "is_integer":
            return SB(self.is_int)
        if name == "is_positive":
            return SB(self.is_pos)
        raise Unsupported(f"exponent.{name}")

    def m_binop(self, eng, op, other, reflected):
        if isinstance(op, ast.Mult) and isinstance(other, int) and other in (1, -1):
            return SI(self.n * other)
        return NotImplemented


class Op(Model):
    def __init__(self, cls, name, annihilation=True):
        self.cls, self.name, self.ann = cls, name, annihilation

    def __repr__(self):
        return f"{self.cls}({self.name}){'' if self.ann else '^+'}"

    def m_isinstance(self, eng, clsname):
        if clsname in ("Expr", "Basic"):
            return True
        if clsname == "SigmaPlus":
            return self.cls == "SigmaMinus" and not self.ann
        if clsname == "SigmaMinus":
            return self.cls == "SigmaMinus" and self.ann
        if clsname in ("BosonOp", "LadderOp", "FermionOp"):
            return self.cls == clsname
        return False

    def m_getattr(self, eng, name):
        if name == "is_annihilation":
            return self.ann
        if name == "adjoint":
            return Builtin("adjoint", lambda e: Op(self.cls, self.name, not self.ann))
        if name == "name":
            return self.name
        if name == "has":
            return Builtin("has", lambda e, *a: True)
        raise Unsupported(f"operator.{name}")

    def m_binop(self, eng, op, other, reflected):
        if isinstance(op, ast.Eq):
            return isinstance(other, Op) and (other.cls, other.name, other.ann) == (self.cls, self.name, self.ann)
        return NotImplemented


class E(Model):
    """expression node"""

    def __init__(self, kind, **kw):
        self.kind = kind
        self.__dict__.update(kw)

    def __repr__(self):
        return f"<{self.kind}>"

    def m_isinstance(self, eng, clsname):
        if clsname in ("Expr", "Basic"):
            return self.kind != "raw"
        table = {"add": "Add", "mul": "Mul", "pow": "Pow", "function": "Function", "sigmaz": "SigmaZ", "sigmax": "SigmaX", "sigmay": "SigmaY", "number": "NumberOperator"}
        return table.get(self.kind) == clsname

    def m_getattr(self, eng, name):
        if name == "has":
            return Builtin("has", lambda e, *a: self.kind != "scalar")
        if name == "args" and self.kind in ("add", "mul", "function"):
            return STup(list(self.subs))
        if name == "base" and self.kind == "pow":
            return self.base
        if name == "exp" and self.kind == "pow":
            return self.exp
        if name == "func" and self.kind == "function":
            return Builtin("f", lambda e, *a: T("f", *a))
        if name == "name" and self.kind in ("sigmax", "sigmay", "sigmaz"):
            return self.name
        raise Unsupported(f"expression<{self.kind}>.{name}")


def unit_from_expr(kind, operators_given=True, timeout_ms=20000):
    node = frontend.find(MODULE, "NumberOrderedForm.from_expr")

    def harness(eng):
        OPS_GIVEN = STup([Op("BosonOp", "a"), Op("SigmaMinus", "s"), Op("FermionOp", "c")], None, True)
        OPS_FOUND = STup([Op("BosonOp", "a"), Op("SigmaMinus", "s"), Op("FermionOp", "c")], None, True)
        found, convs, sympified = [], [], []

        def the_ops():
            return OPS_GIVEN if operators_given else OPS_FOUND

        class Terms(Model):
            def __init__(s, form):
                s.form = form

            def m_getattr(s, e, name):
                if name == "values":
                    nonempty = e.branch(e.fresh("argument_form_has_a_term", "bool"))
                    s.form.nonempty = nonempty
                    return Builtin("values", lambda e_: STup([T("constant-of", s.form)] if nonempty else []))
                raise Unsupported(f"terms.{name}")

        class Conv(Form):
            def __init__(s, sub, ops):
                super().__init__("conv", sub)
                s.sub, s.ops = sub, ops

            def m_getattr(s, e, name):
                if name == "is_particle_conserving":
                    def ipc(e_):
                        s.conserving = e_.branch(e_.fresh("argument_is_particle_conserving", "bool"))
                        return s.conserving
                    return Builtin("is_particle_conserving", ipc)
                if name == "terms":
                    return Terms(s)
                raise Unsupported(f"form.{name}")

        def from_expr(e, x, operators=None):
            c = Conv(x, operators)
            convs.append(c)
            return c

        class NofCls(Model):
            name = "NumberOrderedForm"

            def m_call(s, e, args, kwargs):
                return Form("form", args[0], args[1], kwargs.get("validate", True))

            def m_getattr(s, e, name):
                if name == "from_expr":
                    return Builtin("from_expr", from_expr)
                raise Unsupported(f"NumberOrderedForm.{name}")

        def tuple_(e, *a):
            return STup(list(a))

        def find_ops(e, x):
            found.append(x)
            return OPS_FOUND

        def sympify(e, x):
            sympified.append(x)
            if e.branch(e.fresh("sympify_fails", "bool")):
                raise PyRaise(SExc("SympifyError", ()))
            return E("scalar")
        PH = T("placeholder")
        nums = []

        def number_operator(e, x):
            n = E("number", of=x)
            nums.append(n)
            return n
        pauli = Namespace("pauli", {"SigmaPlus": TypeObj("SigmaPlus"), "SigmaMinus": Builtin("SigmaMinus", lambda e, nm: Op("SigmaMinus", nm)),
                                    "SigmaZ": TypeObj("SigmaZ"), "SigmaX": TypeObj("SigmaX"), "SigmaY": TypeObj("SigmaY")})
        I = T("I")
        I.m_unop = lambda e, op: T("-I") if isinstance(op, ast.USub) else None
        MINUS_I = []

        class Imag(Model):
            def __init__(s, neg=False):
                s.neg = neg

            def m_unop(s, e, op):
                if isinstance(op, ast.USub):
                    return Imag(not s.neg)
                raise Unsupported("unary on I")

        class Two(Model):
            """sympy.S(2): the coefficient 2 * placeholder - One is built as a term"""
            def m_binop(s, e, op, other, reflected):
                if isinstance(op, ast.Mult) and not reflected:
                    return T("2*", other)
                return NotImplemented
        T.m_binop_orig = T.m_binop
        eng.globals.update({
            "sympy": Namespace("sympy", {"Expr": TypeObj("Expr"), "Add": TypeObj("Add"), "Mul": TypeObj("Mul"), "Pow": TypeObj("Pow"), "Function": TypeObj("Function"),
                                         "sympify": Builtin("sympify", sympify), "I": Imag(), "S": Builtin("S", lambda e, x: Two() if x == 2 else x)}),
            "NumberOrderedForm": NofCls(), "NumberOperator": _NumberOperatorType(number_operator), "operator_types": STup([TypeObj("BosonOp"), TypeObj("LadderOp"), TypeObj("SigmaOpBase"), TypeObj("FermionOp")]),
            "generator_types": STup([TypeObj("BosonOp"), TypeObj("LadderOp"), TypeObj("SigmaMinus"), TypeObj("FermionOp")]),
            "type": Builtin("type", lambda e, x: T("type-of", x)), "pauli": pauli, "Tuple": Builtin("Tuple", tuple_), "Zero": 0, "One": 1, "find_operators": Builtin("find_operators", find_ops),
            "_number_operator_to_placeholder": Builtin("_number_operator_to_placeholder", lambda e, n: T("placeholder", n)),
        })
        # ---- the expression --------------------------------------------------------------------------
        subs = [E("sub1"), E("sub2"), E("sub3")]
        opmodel = None
        if kind == "raw":
            expr = E("raw")
        elif kind == "nof":
            expr = Form("given-form")
        elif kind == "scalar":
            expr = E("scalar")
        elif kind in ("add", "mul", "function"):
            expr = E(kind, subs=subs)
        elif kind.startswith("pow-"):
            which = kind[4:]
            if which == "general":
                base = E("sub1")
            else:
                cls_, ann = which.split(":")
                base = Op(cls_, {"BosonOp": "a", "SigmaMinus": "s", "FermionOp": "c", "LadderOp": "l"}[cls_], ann == "annihilation")
            expr = E("pow", base=base, exp=Exp(eng))
        elif kind.startswith("op-"):
            cls_, ann = kind[3:].split(":")
            expr = Op(cls_, {"BosonOp": "a", "SigmaMinus": "s", "FermionOp": "c", "LadderOp": "l"}[cls_], ann == "annihilation")
        elif kind in ("sigmaz", "sigmax", "sigmay"):
            expr = E(kind, name="s")
        elif kind == "number":
            expr = E("number", of=Op("BosonOp", "a"))
        else:
            expr = E("unknown")
        CLS = NofCls()
        args = [CLS, expr]
        kw = {"operators": OPS_GIVEN} if operators_given else {}
        raised = None
        try:
            res = eng.call(Closure(node, Env(None, {}), "from_expr"), args, kw)
        except PyRaise as pr:
            raised, res = pr.exc.cls, None
        ops = the_ops()
        nops = 3

        def one_term(powers, coef, validate_false=True):
            return ("form", ops, [(powers, coef)])

        def is_form(r, terms, check_validate=True):
            """r is cls(ops, Tuple(Tuple(powers, coef), ...)/{powers: coef}, validate=False) with the given terms"""
            if not (isinstance(r, Form) and r.head == "form" and r.args[0] is ops):
                return False
            if check_validate and r.args[2] is not False:
                return False
            tt = r.args[1]
            if isinstance(tt, dict):
                got = [(list(k), v) for k, v in tt.items()]
            else:
                got = []
                for t in eng.as_seq(tt).items:
                    p_, c_ = eng.as_seq(t).items
                    got.append((list(eng.as_seq(p_).items), c_))
            if len(got) != len(terms):
                return False
            for (gp, gc), (wp, wc) in zip(got, terms):
                if len(gp) != len(wp):
                    return False
                for a, b in zip(gp, wp):
                    if isinstance(a, int) and isinstance(b, int):
                        if a != b:
                            return False
                    elif not eng.valid((a if isinstance(a, z3.ExprRef) else zi(a)) == (b if isinstance(b, z3.ExprRef) else zi(b))):
                        return False
                if not wc(gc):
                    return False
            return True
        is_one = lambda c: isinstance(c, int) and c == 1
        zero_key = [0] * nops
        if not operators_given and kind not in ("raw", "nof", "scalar"):
            eng.oblige("operators-default-to-find_operators(expr)-once", z3.BoolVal(len(found) == 1 and found[0] is expr))
        else:
            eng.oblige("find_operators-not-called-when-operators-are-given-or-not-needed", z3.BoolVal(not found))
        eng.oblige("recursive-calls-receive-the-same-operator-list", z3.BoolVal(all(c.ops is ops for c in convs)))
        if kind == "raw":
            if raised:
                eng.oblige("not-an-expression:only-ValueError-when-sympify-fails", z3.BoolVal(raised == "ValueError" and len(sympified) == 1))
            else:
                eng.oblige("not-an-expression:sympified-once-then-converted", z3.BoolVal(len(sympified) == 1 and sympified[0] is expr and isinstance(res, Form)))
            return
        eng.oblige("expression-is-not-sympified-again", z3.BoolVal(not sympified))
        if kind == "nof":
            eng.oblige("form:returned-as-it-is", z3.BoolVal(res is expr and not convs))
        elif kind == "scalar":
            if operators_given:
                ok = is_form(res, [(zero_key, lambda c: c is expr)])
            else:
                ok = isinstance(res, Form) and res.head == "form" and not eng.as_seq(res.args[0]).items and res.args[2] is False
                if ok:
                    tt = eng.as_seq(res.args[1]).items
                    ok = len(tt) == 1 and not eng.as_seq(eng.as_seq(tt[0]).items[0]).items and eng.as_seq(tt[0]).items[1] is expr
            eng.oblige("scalar:one-term-form-with-the-expression-at-the-zero-key", z3.BoolVal(bool(ok)), detail=repr(res))
        elif kind == "add":
            want = Form("form", ops, (), False)
            ok = len(convs) == 3 and all(c.sub is s for c, s in zip(convs, subs))
            cur = res
            chain = []
            while isinstance(cur, Form) and cur.head == "sum":
                chain.append(cur.args[1])
                cur = cur.args[0]
            chain.reverse()
            ok = ok and len(chain) == 3 and all(a is b for a, b in zip(chain, convs)) and isinstance(cur, Form) and cur.head == "form" and cur.args[0] is ops \
                and not eng.as_seq(cur.args[1]).items and cur.args[2] is False
            eng.oblige("add:sum-of-the-converted-summands-starting-from-the-empty-form", z3.BoolVal(bool(ok)), detail=repr(res))
        elif kind == "mul":
            ok = len(convs) == 3 and all(c.sub is s for c, s in zip(convs, subs)) and same(res, Form("prod", Form("prod", convs[0], convs[1]), convs[2])) \
                and res.args[1] is convs[2] and res.args[0].args[0] is convs[0] and res.args[0].args[1] is convs[1]
            eng.oblige("mul:product-of-the-converted-factors-in-argument-order", z3.BoolVal(bool(ok)), detail=repr(res))
        elif kind.startswith("pow-"):
            base, ex = expr.base, expr.exp
            single = isinstance(base, Op)
            direct = z3.And(ex.is_int, ex.is_pos) if single else z3.BoolVal(False)
            if raised:
                eng.oblige("pow:no-exception", z3.BoolVal(False), detail=raised)
            elif isinstance(res, Form) and res.head == "pow":
                eng.oblige("pow:general-route-only-when-not-(generator-with-positive-integer-exponent)", z3.Not(direct))
                eng.oblige("pow:conv(base)**exp", z3.BoolVal(len(convs) == 1 and convs[0].sub is base and res.args[0] is convs[0] and res.args[1] is ex))
            else:
                eng.oblige("pow:direct-route-only-for-a-generator-with-positive-integer-exponent", direct)
                pos = {"BosonOp": 0, "SigmaMinus": 1, "FermionOp": 2}.get(base.cls) if single else None
                if pos is None:
                    eng.oblige("pow:operator-in-the-list", z3.BoolVal(False))
                else:
                    sign = 1 if base.ann else -1
                    wantp = [sign * ex.n if j == pos else 0 for j in range(nops)]
                    eng.oblige("pow:one-term-with-power-(+/-)n-at-the-operator's-position-and-coefficient-One", z3.BoolVal(is_form(res, [(wantp, is_one)]) and not convs), detail=repr(res))
        elif kind == "function":
            cons = [getattr(c, "conserving", None) for c in convs]
            if raised:
                eng.oblige("function:ValueError-only-for-an-argument-with-unmatched-operators", z3.BoolVal(raised == "ValueError" and any(c is False for c in cons)))
            else:
                ok = len(convs) == 3 and all(c.sub is s for c, s in zip(convs, subs)) and all(c is True for c in cons)

                def coef_ok(c):
                    if not (isinstance(c, T) and c.head == "f" and len(c.args) == 3):
                        return False
                    for a, cv in zip(c.args, convs):
                        if getattr(cv, "nonempty", None):
                            if not (isinstance(a, T) and a.head == "constant-of" and a.args[0] is cv):
                                return False
                        elif not (isinstance(a, int) and a == 0):
                            return False
                    return True
                eng.oblige("function:applied-to-the-constants-of-the-particle-conserving-arguments-at-the-zero-key", z3.BoolVal(bool(ok and is_form(res, [(zero_key, coef_ok)]))), detail=repr(res))
        elif kind.startswith("op-"):
            pos = {"BosonOp": 0, "SigmaMinus": 1, "FermionOp": 2}.get(expr.cls)
            if pos is None:
                eng.oblige("operator:ValueError-when-not-in-the-list", z3.BoolVal(raised == "ValueError"))
            else:
                sign = 1 if expr.ann else -1
                wantp = [sign if j == pos else 0 for j in range(nops)]
                eng.oblige("operator:one-term-with-power-(+/-)1-at-its-position-and-coefficient-One", z3.BoolVal(raised is None and is_form(res, [(wantp, is_one)])), detail=repr(res))
        elif kind == "sigmaz":
            def cz(c):
                # 2 * placeholder(NumberOperator(expr)) - 1
                return isinstance(c, T) and c.head == "Sub" and isinstance(c.args[1], int) and c.args[1] == 1 and isinstance(c.args[0], T) and c.args[0].head == "2*" \
                    and isinstance(c.args[0].args[0], T) and c.args[0].args[0].head == "placeholder" and len(nums) == 1 and c.args[0].args[0].args[0] is nums[0] and nums[0].of is expr
            eng.oblige("sigma_z:2N-1-at-the-zero-key", z3.BoolVal(raised is None and is_form(res, [(zero_key, cz)])), detail=repr(res))
        elif kind in ("sigmax", "sigmay"):
            up = [1 if j == 1 else 0 for j in range(nops)]
            dn = [-1 if j == 1 else 0 for j in range(nops)]
            if kind == "sigmax":
                cs = (is_one, is_one)
            else:
                cs = (lambda c: isinstance(c, Imag) and not c.neg, lambda c: isinstance(c, Imag) and c.neg)
            eng.oblige(f"{kind}:s-and-s^+-with-the-right-coefficients", z3.BoolVal(raised is None and is_form(res, [(up, cs[0]), (dn, cs[1])], check_validate=False)), detail=repr(res))
        elif kind == "number":
            ok = raised is None and is_form(res, [(zero_key, lambda c: isinstance(c, T) and c.head == "placeholder" and c.args[0] is expr)])
            eng.oblige("number-operator:its-placeholder-at-the-zero-key", z3.BoolVal(bool(ok)), detail=repr(res))
        else:
            eng.oblige("unknown-node:ValueError", z3.BoolVal(raised == "ValueError"), detail=f"{raised} {res!r}")

    nm = f"number_ordered_form:from_expr[{kind}{'' if operators_given else ',operators found'}]"
    r = run_unit(nm, harness, functions=[(MODULE, "NumberOrderedForm.from_expr")], timeout_ms=timeout_ms)
    r.bounded.append("operator list of three modes (boson a, spin s, fermion c); Add / Mul / Function nodes with three arguments")
    r.notes.append("recursive calls are replaced by their contract conv(sub): one level of the structural recursion per node kind (inductive step)")
    return r


class _NumberOperatorType(Model):
    """NumberOperator: a class in isinstance / has, a constructor in sigma_z's branch"""

    def __init__(self, ctor):
        self.ctor = ctor
        self.name = "NumberOperator"

    def m_call(self, eng, args, kwargs):
        return self.ctor(eng, *args)


KINDS = ["raw", "nof", "scalar", "add", "mul", "function", "pow-general", "pow-BosonOp:annihilation", "pow-BosonOp:creation", "pow-FermionOp:creation", "pow-SigmaMinus:creation",
         "op-BosonOp:annihilation", "op-FermionOp:creation", "op-SigmaMinus:creation", "op-SigmaMinus:annihilation", "op-LadderOp:annihilation", "sigmaz", "sigmax", "sigmay", "number", "unknown"]


# ---- __new__ -------------------------------------------------------------------------------------------

def unit_new(layout, terms_kind="dict", validate=False, timeout_ms=20000):
    """NumberOrderedForm.__new__: establishes the class invariant every other NOF contract starts from (contracts/nof.py: NofSelf).
      * args = (Tuple(*operators), terms as a Tuple of Tuple(powers, coefficient)): every given (powers, coefficient) pair exactly once - from a dict, any iterable of pairs, or a Tuple;
      * _n_bosons / _n_ladders / _n_spins / _n_fermions count the operators of each class, _n_inf_order = bosons + ladders;
      * _number_operator_placeholders[i] = placeholder(NumberOperator(operators[i])); the two maps are inverse to each other on exactly these pairs;
      * validate=True: _validate_operators(operators) first, number operators in the coefficients replaced by placeholders (xreplace with the map), then _validate_terms(converted terms, operators);
        validate=False: neither validation nor replacement.
    layout: list of classes (BosonOp / LadderOp / SigmaMinus / FermionOp); terms_kind: dict | pairs | Tuple"""
    node = frontend.find(MODULE, "NumberOrderedForm.__new__")

    def harness(eng):
        ops_in = STup([Op(c, f"m{i}") for i, c in enumerate(layout)], None, True)
        calls = {"vo": [], "vt": []}

        class TupleT(Model):
            name = "Tuple"

            def m_call(s, e, args, kwargs):
                return SymTuple(list(args))

        class SymTuple(STup):
            def __init__(s, items):
                super().__init__(items)
                s.is_sympy_tuple = True
        orig_isinstance1 = None

        class Cls(Model):
            name = "NumberOrderedForm"

            def m_getattr(s, e, name):
                if name == "_validate_operators":
                    return Builtin("_validate_operators", lambda e_, o: calls["vo"].append(o))
                if name == "_validate_terms":
                    return Builtin("_validate_terms", lambda e_, t, o: calls["vt"].append((t, o)))
                raise Unsupported(f"cls.{name}")

        class Result(Model):
            def __init__(s, a):
                s.args, s.attrs = a, {}

            def m_setattr(s, e, name, v):
                s.attrs[name] = v

            def m_getattr(s, e, name):
                if name in s.attrs:
                    return s.attrs[name]
                raise Unsupported(f"result.{name}")
        made = []

        def expr_new(e, cls_, *a, **hints):
            r = Result(a)
            made.append((cls_, r, hints))
            return r

        class CoefT(T):
            def m_getattr(s, e, name):
                if name == "xreplace":
                    return Builtin("xreplace", lambda e_, m: CoefT("xreplaced", s, m))
                return super().m_getattr(e, name)

        def isinstance_(e, obj, cls_):
            names = [c.name for c in (cls_.items if isinstance(cls_, STup) else [cls_])]
            if names == ["Tuple"]:
                return bool(getattr(obj, "is_sympy_tuple", False))
            if isinstance(obj, dict):
                return names == ["dict"]
            if isinstance(obj, STup):
                return False
            return any(obj.m_isinstance(e, n) for n in names)
        NumOp = Builtin("NumberOperator", lambda e, op: T("N", op))
        from pyvc.models import DictType

        def dict_(e, *a, **kw):
            out = {}
            for x in a:
                if isinstance(x, dict):
                    out.update(x)
                else:
                    for pair in e.as_seq(x).items:
                        k_, v_ = e.as_seq(pair).items
                        out[e.hashable(k_)] = v_
            out.update(kw)
            return out
        eng.globals.update({"Tuple": TupleT(), "isinstance": Builtin("isinstance", isinstance_), "dict": DictType("dict", dict_), "NumberOperator": NumOp,
                            "_number_operator_to_placeholder": Builtin("ph", lambda e, n: T("ph", n)),
                            "sympy": Namespace("sympy", {"Expr": Namespace("Expr", {"__new__": Builtin("Expr.__new__", expr_new)})}),
                            "BosonOp": TypeObj("BosonOp"), "LadderOp": TypeObj("LadderOp"), "FermionOp": TypeObj("FermionOp"),
                            "pauli": Namespace("pauli", {"SigmaMinus": TypeObj("SigmaMinus")})})
        k = len(layout)
        nt = 2 if (k or terms_kind != "dict") else 1
        if terms_kind == "dict":      # dictionary keys are concrete tuples (distinct)
            pws = [STup([(2 - 3 * t) if j == 0 else (j + t) for j in range(k)]) for t in range(nt)]
        else:
            pws = [STup([SI(eng.fresh(f"p{t}_{j}")) for j in range(k)]) for t in range(nt)]
        cfs = [CoefT(f"coef{t}") for t in range(nt)]
        if terms_kind == "dict":
            terms = {eng.hashable(pws[t]): cfs[t] for t in range(nt)}
        elif terms_kind == "pairs":
            terms = STup([STup([pws[t], cfs[t]]) for t in range(nt)], None, True)
        else:
            terms = SymTuple([SymTuple([pws[t], cfs[t]]) for t in range(nt)])
        cls = Cls()
        res = eng.call(Closure(node, Env(None, {}), "__new__"), [cls, ops_in, terms], {"validate": validate})
        ok = len(made) == 1 and made[0][1] is res and made[0][0] is cls and len(res.args) == 2
        eng.oblige("one-object-created-by-Expr.__new__(cls, operators, terms)", z3.BoolVal(ok))
        if not ok:
            return
        o, t = res.args
        eng.oblige("args[0]-is-the-Tuple-of-the-operators-in-order", z3.BoolVal(getattr(o, "is_sympy_tuple", False) and len(o.items) == k and all(a is b for a, b in zip(o.items, ops_in.items))))
        tt = eng.as_seq(t).items
        okt = getattr(t, "is_sympy_tuple", False) and len(tt) == nt
        got = []
        if okt:
            for x in tt:
                xs = eng.as_seq(x).items
                okt = okt and getattr(x, "is_sympy_tuple", False) and len(xs) == 2
                got.append(xs)
        eng.oblige("args[1]-is-a-Tuple-of-Tuple(powers, coefficient)-pairs", z3.BoolVal(bool(okt)))
        if okt:
            # the terms are a sum: any order is the same form; match every given term with the entry that carries its coefficient
            def base_coef(c):
                return c.args[0] if (isinstance(c, CoefT) and c.head == "xreplaced") else c
            order = []
            for n_ in range(nt):
                order += [g for g in got if base_coef(g[1]) is cfs[n_]][:1]
            eng.oblige("every-given-term-occurs-exactly-once", z3.BoolVal(len(order) == nt and len({id(g) for g in order}) == nt))
            if len(order) != nt:
                return
            for n_, (gp, gc) in enumerate(order):
                gpi = eng.as_seq(gp).items
                same_p = len(gpi) == k and all(eng.valid(zi(a) == zi(b)) for a, b in zip(gpi, pws[n_].items))
                eng.oblige(f"term{n_}:powers-kept-with-their-coefficient", z3.BoolVal(bool(same_p)))
                if validate:
                    repl = res.attrs.get("_number_operator_to_placeholder")
                    eng.oblige(f"term{n_}:validate:number-operators-replaced-by-placeholders", z3.BoolVal(isinstance(gc, CoefT) and gc.head == "xreplaced" and gc.args[0] is cfs[n_] and gc.args[1] is repl))
                else:
                    eng.oblige(f"term{n_}:no-validate:coefficient-kept-as-it-is", z3.BoolVal(gc is cfs[n_]))
        a = res.attrs
        cnt = {c: sum(1 for x in layout if x == c) for c in ("BosonOp", "LadderOp", "SigmaMinus", "FermionOp")}

        def as_int(v):
            return v if isinstance(v, int) else None
        eng.oblige("counts:_n_bosons/_n_ladders/_n_spins/_n_fermions-count-the-operators-of-each-class",
                   z3.BoolVal(as_int(a.get("_n_bosons")) == cnt["BosonOp"] and as_int(a.get("_n_ladders")) == cnt["LadderOp"] and as_int(a.get("_n_spins")) == cnt["SigmaMinus"]
                              and as_int(a.get("_n_fermions")) == cnt["FermionOp"]), detail=f"{ {n: a.get(n) for n in ('_n_bosons', '_n_ladders', '_n_spins', '_n_fermions')} }")
        eng.oblige("counts:_n_inf_order-is-bosons-plus-ladders", z3.BoolVal(as_int(a.get("_n_inf_order")) == cnt["BosonOp"] + cnt["LadderOp"]))
        ph = a.get("_number_operator_placeholders")
        phi = eng.as_seq(ph).items if ph is not None else []

        def is_ph(x, op):
            return isinstance(x, T) and x.head == "ph" and isinstance(x.args[0], T) and x.args[0].head == "N" and x.args[0].args[0] is op
        eng.oblige("placeholders:one-per-operator-in-operator-order", z3.BoolVal(len(phi) == k and all(is_ph(x, op) for x, op in zip(phi, ops_in.items))))
        p2n, n2p = a.get("_placeholder_to_number_operator"), a.get("_number_operator_to_placeholder")
        okm = isinstance(p2n, dict) and isinstance(n2p, dict) and len(p2n) == k and len(n2p) == k
        if okm:
            for x in phi:
                nop = p2n.get(eng.hashable(x))
                okm = okm and nop is x.args[0] and n2p.get(eng.hashable(nop)) is x
        eng.oblige("placeholders:the-two-maps-are-inverse-bijections-between-placeholders-and-number-operators", z3.BoolVal(bool(okm)))
        if validate:
            eng.oblige("validate:_validate_operators(operators)-called-once", z3.BoolVal(len(calls["vo"]) == 1 and calls["vo"][0] is o))
            eng.oblige("validate:_validate_terms(converted-terms, operators)-called-once", z3.BoolVal(len(calls["vt"]) == 1 and calls["vt"][0][0] is t and calls["vt"][0][1] is o))
        else:
            eng.oblige("no-validate:no-validation", z3.BoolVal(not calls["vo"] and not calls["vt"]))

    nm = f"number_ordered_form:__new__[{'+'.join(layout) or 'no operators'},{terms_kind},validate={validate}]"
    r = run_unit(nm, harness, functions=[(MODULE, "NumberOrderedForm.__new__")], timeout_ms=timeout_ms)
    r.bounded.append(f"operator classes {list(layout)}, two terms")
    return r


# ---- validators ----------------------------------------------------------------------------------------

VALIDATOR_LAYOUTS = {
    "canonical": [("BosonOp", "a", True), ("BosonOp", "b", True), ("LadderOp", "l", True), ("SigmaMinus", "s", True), ("FermionOp", "c", True)],
    "empty": [],
    "names-unsorted": [("BosonOp", "b", True), ("BosonOp", "a", True)],
    "classes-unsorted": [("FermionOp", "c", True), ("BosonOp", "a", True)],
    "spin-before-ladder": [("SigmaMinus", "s", True), ("LadderOp", "l", True)],
    "creation-operator": [("BosonOp", "a", True), ("FermionOp", "c", False)],
    "foreign-class": [("BosonOp", "a", True), ("Symbol", "x", True)],
    "foreign-and-creation": [("Symbol", "x", False), ("BosonOp", "a", False)],
}


def unit_validate_operators(layout_name, timeout_ms=10000):
    """NumberOrderedForm._validate_operators: accepts exactly the lists of annihilation generators (BosonOp, LadderOp, SigmaMinus, FermionOp) sorted by (class rank in this order, name) -
    the canonical operator order every other NOF contract assumes; TypeError for a foreign class (checked first), ValueError for a creation operator or a wrong order."""
    node = frontend.find(MODULE, "NumberOrderedForm._validate_operators")
    lay = VALIDATOR_LAYOUTS[layout_name]

    def harness(eng):
        class Ty(TypeObj):
            def m_binop(s, e, op, other, reflected):
                if isinstance(op, ast.Eq):
                    return isinstance(other, TypeObj) and other.name == s.name
                return NotImplemented
        types = {n: Ty(n) for n in ("BosonOp", "LadderOp", "SigmaMinus", "FermionOp", "Symbol")}
        ops = STup([Op(c, n, a) for c, n, a in lay], None, True)
        eng.globals.update({"generator_types": STup([types[n] for n in ("BosonOp", "LadderOp", "SigmaMinus", "FermionOp")]),
                            "type": Builtin("type", lambda e, x: types[x.cls]), "str": Builtin("str", lambda e, x: x)})
        raised = None
        try:
            eng.call(Closure(node, Env(None, {}), "_validate_operators"), [ops], {})
        except PyRaise as pr:
            raised = pr.exc.cls
        rank = {"BosonOp": 0, "LadderOp": 1, "SigmaMinus": 2, "FermionOp": 3}
        if any(c not in rank for c, _, _ in lay):
            want = "TypeError"
        elif not all(a for _, _, a in lay):
            want = "ValueError"
        elif [(rank[c], n) for c, n, _ in lay] != sorted((rank[c], n) for c, n, _ in lay):
            want = "ValueError"
        else:
            want = None
        eng.oblige("accepts-exactly-canonically-ordered-annihilation-generators", z3.BoolVal(raised == want), detail=f"raised {raised}, expected {want}")
    return run_unit(f"number_ordered_form:_validate_operators[{layout_name}]", harness, functions=[(MODULE, "NumberOrderedForm._validate_operators")], timeout_ms=timeout_ms)


def unit_validate_terms(defect, timeout_ms=10000):
    """NumberOrderedForm._validate_terms: defect: none | length | non-integer-power | non-commutative-coefficient.  ValueError for a powers tuple of the wrong length or a coefficient that
    still contains operators, TypeError for a non-integer power; silent otherwise."""
    node = frontend.find(MODULE, "NumberOrderedForm._validate_terms")

    def harness(eng):
        class P(Model):
            def __init__(s, integer):
                s.integer = integer

            def m_getattr(s, e, name):
                if name == "is_integer":
                    return s.integer
                raise Unsupported(f"power.{name}")

        class C(Model):
            def __init__(s, comm):
                s.comm = comm

            def m_getattr(s, e, name):
                if name == "is_commutative":
                    return s.comm
                raise Unsupported(f"coefficient.{name}")
        ops = STup([Op("BosonOp", "a"), Op("FermionOp", "c")], None, True)
        t_ok = STup([STup([P(True), P(True)]), C(True)])
        bad = {"none": t_ok, "length": STup([STup([P(True)]), C(True)]), "non-integer-power": STup([STup([P(True), P(False)]), C(True)]),
               "non-commutative-coefficient": STup([STup([P(True), P(True)]), C(False)])}[defect]
        raised = None
        try:
            eng.call(Closure(node, Env(None, {}), "_validate_terms"), [STup([t_ok, bad]), ops], {})
        except PyRaise as pr:
            raised = pr.exc.cls
        want = {"none": None, "length": "ValueError", "non-integer-power": "TypeError", "non-commutative-coefficient": "ValueError"}[defect]
        eng.oblige("rejects-exactly-malformed-terms-with-the-documented-exception", z3.BoolVal(raised == want), detail=f"raised {raised}, expected {want}")
    return run_unit(f"number_ordered_form:_validate_terms[{defect}]", harness, functions=[(MODULE, "NumberOrderedForm._validate_terms")], timeout_ms=timeout_ms)


# ---- find_operators ------------------------------------------------------------------------------------

def unit_find_operators(case="mixed", timeout_ms=10000):
    """find_operators(expr): the annihilation generators of every operator atom of expr AND of expr.doit() (a term that vanishes identically under doit, c^+ N_c, still has to be
    convertible term by term) - one per (class, name), whatever form the atom has (creation operator, sigma_x/y/z, both a and a^+) -
    plus LadderOp(name) for number operators of ladder operators, sorted by (class rank BosonOp < LadderOp < SigmaMinus < FermionOp, name): exactly the order _validate_operators accepts."""
    node = frontend.find(MODULE, "find_operators")

    def harness(eng):
        class G(TypeObj):
            def m_binop(s, e, op, other, reflected):
                if isinstance(op, ast.Eq):
                    return isinstance(other, TypeObj) and other.name == s.name
                return NotImplemented

            def m_call(s, e, args, kwargs):
                return Op(s.name, args[0])
        gens = {n: G(n) for n in ("BosonOp", "LadderOp", "SigmaMinus", "FermionOp")}

        class Atom(Model):
            def __init__(s, name, arg_cls=None):
                s.name, s.arg_cls = name, arg_cls

            def m_getattr(s, e, attr):
                if attr == "name":
                    return s.name
                if attr == "args":
                    class A(Model):
                        def m_getattr(s2, e2, a2):
                            if a2 == "name":
                                return s.arg_cls
                            raise Unsupported("arg attr")
                    return STup([T("op"), A()])
                raise Unsupported(f"atom.{attr}")
        # atoms of the expression as given (a term that vanishes identically, c^+ N_c, is only visible here) ...
        raw_only = {"mixed": {"FermionOp": ["z"], "BosonOp": ["a"]}, "ladder-both-ways": {}, "none": {"SigmaOpBase": ["t"]}}[case]
        # ... and of expr.doit() (number operators expanded, forms converted)
        cases = {
            "mixed": {"BosonOp": ["b", "a", "a"], "LadderOp": [], "SigmaOpBase": ["s", "s"], "FermionOp": ["d", "c"], "NumberOperator": [("l", "LadderOp"), ("a", "BosonOp"), ("k", "LadderOp")]},
            "ladder-both-ways": {"BosonOp": [], "LadderOp": ["l"], "SigmaOpBase": [], "FermionOp": [], "NumberOperator": [("l", "LadderOp")]},
            "none": {"BosonOp": [], "LadderOp": [], "SigmaOpBase": [], "FermionOp": [], "NumberOperator": []},
        }[case]
        doits = []

        class Ex(Model):
            def __init__(s, done=False):
                s.done = done

            def m_getattr(s, e, attr):
                if attr == "doit":
                    def doit(e_):
                        doits.append(1)
                        return Ex(True)
                    return Builtin("doit", doit)
                if attr == "atoms":
                    src = cases if s.done else {k: raw_only.get(k, []) for k in cases}
                    return Builtin("atoms", lambda e_, cls_: STup([Atom(*((x,) if isinstance(x, str) else x)) for x in src[cls_.name]], None, True))
                raise Unsupported(f"expr.{attr}")

        class SetM(Model):
            def m_getattr(s, e, attr):
                if attr == "union":
                    def union(e_, *its):
                        out = []
                        for it in its:
                            for x in e_.as_seq(it).items:
                                if not any((x.cls, x.name) == (y.cls, y.name) for y in out):
                                    out.append(x)
                        return STup(out, None, True)
                    return Builtin("union", union)
                raise Unsupported(f"set.{attr}")
        eng.globals.update({"operator_types": STup([TypeObj("BosonOp"), TypeObj("LadderOp"), TypeObj("SigmaOpBase"), TypeObj("FermionOp")]),
                            "generator_types": STup([gens[n] for n in ("BosonOp", "LadderOp", "SigmaMinus", "FermionOp")]),
                            "NumberOperator": TypeObj("NumberOperator"), "LadderOp": gens["LadderOp"], "set": Builtin("set", lambda e: SetM()),
                            "type": Builtin("type", lambda e, x: gens[x.cls]), "str": Builtin("str", lambda e, x: x)})
        res = eng.call(Closure(node, Env(None, {}), "find_operators"), [Ex()], {})
        got = [(x.cls, x.name) for x in eng.as_seq(res).items]
        rank = {"BosonOp": 0, "LadderOp": 1, "SigmaMinus": 2, "FermionOp": 3}
        want = set()
        for cls_, gen in zip(("BosonOp", "LadderOp", "SigmaOpBase", "FermionOp"), ("BosonOp", "LadderOp", "SigmaMinus", "FermionOp")):
            want |= {(gen, n) for n in cases[cls_]} | {(gen, n) for n in raw_only.get(cls_, [])}
        want |= {("LadderOp", n) for n, c in cases["NumberOperator"] if c == "LadderOp"}
        want = sorted(want, key=lambda x: (rank[x[0]], x[1]))
        eng.oblige("result-is-the-canonically-sorted-list-of-the-distinct-generators-of-expr-and-expr.doit()", z3.BoolVal(got == want), detail=f"got {got}, want {want}")
        eng.oblige("doit-evaluated-once", z3.BoolVal(len(doits) == 1))
    return run_unit(f"number_ordered_form:find_operators[{case}]", harness, functions=[(MODULE, "find_operators")], timeout_ms=timeout_ms)


# ---- NumberOperator ------------------------------------------------------------------------------------

def unit_number_operator(kind, timeout_ms=10000):
    """NumberOperator.doit / _eval_power for kind in BosonOp | FermionOp | SigmaOpBase | LadderOp:
      doit:  N = c^+ c for bosons and fermions (the adjoint on the LEFT), (sigma_z + 1) / 2 for a spin (= sigma_+ sigma_-, the occupation of the state that SigmaMinus lowers), itself for a ladder mode;
      power: a POSITIVE integer power of a fermionic or spin number operator is the operator itself (idempotent; the operator is singular, so negative powers are not simplified);
             everything else is left to sympy (super()._eval_power)."""
    def harness(eng):
        NAME = T("mode-name")

        class Sym(Model):
            def __init__(s, name):
                s.name = name

            def m_getattr(s, e, attr):
                if attr == "name":
                    return s.name
                raise Unsupported(f"symbol.{attr}")
        KIND = Sym(kind)
        made = []

        class Me(Model):
            def m_getattr(s, e, attr):
                if attr == "args":
                    return STup([NAME, KIND])
                raise Unsupported(f"self.{attr}")
        me = Me()

        class TypeMap(Model):
            def m_getitem(s, e, key):
                if key is not KIND:
                    raise Unsupported("operator_type_by_name of another key")
                def ctor(e_, nm):
                    o = T("op", T(kind), nm)
                    made.append(o)
                    return o
                return Builtin("ctor", ctor)

        class Half(Model):
            pass
        S_ = Builtin("S", lambda e, x: T("S", x))
        S_.m_getattr = lambda e, a: 1 if a == "One" else None
        eng.globals.update({"pauli": Namespace("pauli", {"SigmaZ": Builtin("SigmaZ", lambda e, nm: T("SigmaZ", nm))}),
                            "sympy": Namespace("sympy", {"S": _SNamespace()}), "operator_type_by_name": TypeMap(), "Dagger": Builtin("Dagger", lambda e, x: T("Dagger", x))})
        res = eng.call(Closure(frontend.find(MODULE, "NumberOperator.doit"), Env(None, {}), "doit"), [me], {})
        if kind == "LadderOp":
            eng.oblige("doit:ladder-number-operator-stays", z3.BoolVal(res is me))
        elif kind == "SigmaOpBase":
            # (SigmaZ(name) + One) / S(2)
            ok = isinstance(res, T) and res.head == "Div" and isinstance(res.args[1], T) and res.args[1].head == "S" and res.args[1].args[0] == 2 \
                and isinstance(res.args[0], T) and res.args[0].head == "Add" and isinstance(res.args[0].args[0], T) and res.args[0].args[0].head == "SigmaZ" \
                and res.args[0].args[0].args[0] is NAME and res.args[0].args[1] == 1
            eng.oblige("doit:spin-number-is-(sigma_z+1)/2", z3.BoolVal(bool(ok)), detail=repr(res))
        else:
            ok = isinstance(res, T) and res.head == "Mult" and len(made) == 1 and isinstance(res.args[0], T) and res.args[0].head == "Dagger" and res.args[0].args[0] is made[0] \
                and res.args[1] is made[0] and made[0].args[1] is NAME
            eng.oblige("doit:number-is-adjoint-times-operator-of-the-same-mode", z3.BoolVal(bool(ok)), detail=repr(res))
        # power
        for integer in (True, False):
            for positive in (True, False, None):
                class Exp(Model):
                    def m_getattr(s, e, attr):
                        if attr == "is_integer":
                            return integer
                        if attr == "is_positive":
                            return positive
                        raise Unsupported(f"exp.{attr}")
                ex = Exp()
                sup = []

                class Super(Model):
                    def m_getattr(s, e, attr):
                        if attr == "_eval_power":
                            return Builtin("super._eval_power", lambda e_, x: (sup.append(x), T("sympy-power"))[1])
                        raise Unsupported(f"super().{attr}")
                eng.globals["super"] = Builtin("super", lambda e: Super())
                r = eng.call(Closure(frontend.find(MODULE, "NumberOperator._eval_power"), Env(None, {}), "_eval_power"), [me, ex], {})
                idem = integer and positive is True and kind not in ("BosonOp", "LadderOp")
                eng.oblige(f"power:idempotent-iff-fermion-or-spin-and-POSITIVE-integer-exponent[integer={integer},positive={positive}]",
                           z3.BoolVal((r is me and not sup) if idem else (isinstance(r, T) and r.head == "sympy-power" and sup == [ex])))
    return run_unit(f"number_ordered_form:NumberOperator.doit/_eval_power[{kind}]", harness,
                    functions=[(MODULE, "NumberOperator.doit"), (MODULE, "NumberOperator._eval_power")], timeout_ms=timeout_ms)


class _SNamespace(Model):
    """sympy.S: callable (S(2)) and a namespace (S.One)"""

    def m_call(self, eng, args, kwargs):
        return T("S", args[0])

    def m_getattr(self, eng, name):
        if name == "One":
            return 1
        if name == "Zero":
            return 0
        raise Unsupported(f"S.{name}")


def unit_ladder_and_helpers(timeout_ms=10000):
    """LadderOp: args = (name, Integer(flag)), flag One by default; is_annihilation = bool(flag); the adjoint keeps the name and toggles the flag (so Dagger(Dagger(l)) = l and l^+ is not l).
    _number_operator_to_placeholder: an integer Symbol whose name is built from BOTH the mode name and the operator class (number operators of different modes or classes get different placeholders).
    _sum (sympy's EXRAW domain): the left fold of `+` over the items, Zero for none."""
    def harness(eng):
        NAME = T("name")
        made = []

        def op_new(e, cls_, *a):
            made.append((cls_, a))
            return T("object")
        eng.globals.update({"Operator": Namespace("Operator", {"__new__": Builtin("Operator.__new__", op_new)}), "One": 1, "Zero": 0,
                            "sympy": Namespace("sympy", {"Integer": Builtin("Integer", lambda e, x: T("Integer", x)), "Symbol": Builtin("Symbol", lambda e, nm, **kw: T("Symbol", nm, *[T(k, v) for k, v in sorted(kw.items())]))}),
                            "bool": Builtin("bool", lambda e, x: bool(x.args[0]) if isinstance(x, T) and x.head == "Integer" else bool(x))})
        CLS = T("cls")
        new = frontend.find(MODULE, "LadderOp.__new__")
        eng.call(Closure(new, Env(None, {}), "__new__"), [CLS, NAME], {})
        eng.call(Closure(new, Env(None, {}), "__new__"), [CLS, NAME, False], {})
        ok = len(made) == 2 and all(m[0] is CLS and m[1][0] is NAME and isinstance(m[1][1], T) and m[1][1].head == "Integer" for m in made) \
            and made[0][1][1].args[0] == 1 and made[1][1][1].args[0] is False
        eng.oblige("LadderOp.__new__:args-are-(name, Integer(flag))-flag-One-by-default", z3.BoolVal(bool(ok)), detail=repr(made))
        for n_bad in (0, 3):
            try:
                eng.call(Closure(new, Env(None, {}), "__new__"), [CLS] + [NAME] * n_bad, {})
                raised = None
            except PyRaise as pr:
                raised = pr.exc.cls
            except Unsupported as u:
                raised = f"Unsupported {u}"
            eng.oblige(f"LadderOp.__new__:{n_bad}-arguments-refused-with-ValueError", z3.BoolVal(raised == "ValueError"), detail=str(raised))
        for flag in (True, False):
            class Me(Model):
                def m_getattr(s, e, attr):
                    if attr == "args":
                        return STup([NAME, T("Integer", 1 if flag else 0)])
                    if attr == "name":
                        return e.call(Closure(frontend.find(MODULE, "LadderOp.name"), Env(None, {}), "name"), [s], {})
                    if attr == "is_annihilation":
                        return e.call(Closure(frontend.find(MODULE, "LadderOp.is_annihilation"), Env(None, {}), "is_annihilation"), [s], {})
                    raise Unsupported(f"self.{attr}")
            built = []
            eng.globals["type"] = Builtin("type", lambda e, x: Builtin("cls", lambda e_, *a: (built.append(a), T("adjoint-object"))[1]))
            me = Me()
            eng.oblige(f"LadderOp.is_annihilation-is-bool(flag)[{flag}]", z3.BoolVal(eng.getattr(me, "is_annihilation") is flag))
            eng.call(Closure(frontend.find(MODULE, "LadderOp._eval_adjoint"), Env(None, {}), "_eval_adjoint"), [me], {})
            eng.oblige(f"LadderOp._eval_adjoint-keeps-the-name-and-toggles-the-flag[{flag}]", z3.BoolVal(len(built) == 1 and built[0][0] is NAME and built[0][1] is (not flag)), detail=repr(built))
        # placeholder
        ph = frontend.find(MODULE, "_number_operator_to_placeholder")

        class NumOp(Model):
            def __init__(s, a, b):
                s.a, s.b = a, b

            def m_getattr(s, e, attr):
                if attr == "args":
                    return STup([s.a, s.b])
                raise Unsupported(f"N.{attr}")
        names = []
        for a_, b_ in (("a", "BosonOp"), ("a", "FermionOp"), ("b", "BosonOp")):
            r = eng.call(Closure(ph, Env(None, {}), "_number_operator_to_placeholder"), [NumOp(a_, b_)], {})
            good = isinstance(r, T) and r.head == "Symbol" and any(isinstance(x, T) and x.head == "integer" and x.args[0] is True for x in r.args[1:])
            eng.oblige(f"placeholder-is-an-integer-Symbol[{a_},{b_}]", z3.BoolVal(bool(good)), detail=repr(r))
            names.append(r.args[0] if isinstance(r, T) and r.args else None)
        eng.oblige("placeholder-names-distinguish-mode-AND-class", z3.BoolVal(all(isinstance(n, str) for n in names) and len(set(names)) == 3), detail=repr(names))
        # _sum
        sm = frontend.find(MODULE, "_sum")
        x, y, z_ = T("x"), T("y"), T("z")
        r0 = eng.call(Closure(sm, Env(None, {}), "_sum"), [T("domain"), STup([], None, True)], {})
        r3 = eng.call(Closure(sm, Env(None, {}), "_sum"), [T("domain"), STup([x, y, z_], None, True)], {})
        okf = isinstance(r3, T) and r3.head == "Add" and r3.args[1] is z_ and isinstance(r3.args[0], T) and r3.args[0].head == "Add" and r3.args[0].args[0] is x and r3.args[0].args[1] is y
        eng.oblige("_sum:left-fold-of-plus-Zero-for-no-items", z3.BoolVal(isinstance(r0, int) and r0 == 0 and bool(okf)), detail=f"{r0!r} {r3!r}")
    return run_unit("number_ordered_form:LadderOp/_number_operator_to_placeholder/_sum", harness,
                    functions=[(MODULE, "LadderOp.__new__"), (MODULE, "LadderOp._eval_adjoint"), (MODULE, "LadderOp.name"), (MODULE, "LadderOp.is_annihilation"),
                               (MODULE, "_number_operator_to_placeholder"), (MODULE, "_sum")], timeout_ms=timeout_ms)


def unit_number_operator_new(timeout_ms=10000):
    """NumberOperator.__new__(cls, *args, **hints): called with ONE argument, that argument must be an operator of one of the four supported classes (TypeError otherwise) and the
    object is built as super().__new__(cls, operator.name, <name of THE class among operator_types the operator is an instance of>, **hints) - the mode name and the statistics are
    what doit / _eval_power / the placeholder (their own units) read back, so a wrong class name turns a fermionic number operator into a bosonic one;
    called with TWO arguments (sympy rebuilding the object from .args) they are passed through unchanged, in order; any other count is a ValueError."""
    new = frontend.find(MODULE, "NumberOperator.__new__")

    def harness(eng):
        class Cls(TypeObj):
            def m_getattr(s, e, attr):
                if attr == "__name__":
                    return s.name
                raise Unsupported(f"class.{attr}")
        # the class tuple is READ from the module's own assignment `operator_types = ...` (last attribute name of each element)
        ORDER = None
        for st in frontend.module_ast(MODULE)[0].body:
            if isinstance(st, ast.Assign) and len(st.targets) == 1 and isinstance(st.targets[0], ast.Name) and st.targets[0].id == "operator_types" and isinstance(st.value, ast.Tuple):
                ORDER = [e.attr if isinstance(e, ast.Attribute) else e.id for e in st.value.elts if isinstance(e, (ast.Attribute, ast.Name))]
        eng.oblige("operator_types-is-the-four-supported-classes", z3.BoolVal(ORDER is not None and sorted(ORDER) == ["BosonOp", "FermionOp", "LadderOp", "SigmaOpBase"]), detail=repr(ORDER))
        if ORDER is None:
            return
        made = []

        def super_new(e, *a, **kw):
            made.append((a, kw))
            return T("number-operator-object")
        eng.globals.update({"operator_types": STup([Cls(n) for n in ORDER]),
                            "super": Builtin("super", lambda e: Namespace("super", {"__new__": Builtin("__new__", super_new)}))})
        CLS, HINT = T("cls"), T("hint-value")

        class Op(Model):
            def __init__(s, kinds, name):
                s.kinds, s.nm = kinds, name

            def m_isinstance(s, e, clsname):
                return clsname in s.kinds

            def m_getattr(s, e, attr):
                if attr == "name":
                    return s.nm
                raise Unsupported(f"operator.{attr}")

        def call(args, kw):
            made.clear()
            try:
                r = eng.call(Closure(new, Env(None, {}), "__new__"), [CLS] + args, kw)
                return r, None
            except PyRaise as pr:
                return None, pr.exc.cls
        for kind, kinds in (("BosonOp", ("BosonOp", "Operator")), ("LadderOp", ("LadderOp", "Operator")), ("SigmaOpBase", ("SigmaX", "SigmaOpBase", "Operator")),
                            ("SigmaOpBase", ("SigmaMinus", "SigmaOpBase", "Operator")), ("FermionOp", ("FermionOp", "Operator"))):
            NAME = T("mode-name-" + kinds[0])
            r, exc = call([Op(kinds, NAME)], {"hint": HINT})
            ok = exc is None and isinstance(r, T) and r.head == "number-operator-object" and len(made) == 1 and len(made[0][0]) == 3 and made[0][0][0] is CLS \
                and made[0][0][1] is NAME and made[0][0][2] == kind and list(made[0][1]) == ["hint"] and made[0][1]["hint"] is HINT
            eng.oblige(f"one-operator[{kinds[0]}]:built-from-(its name, '{kind}')-hints-passed-on", z3.BoolVal(bool(ok)), detail=f"{made!r} {exc}")
        r, exc = call([Op(("Symbol", "Expr"), T("x"))], {})
        eng.oblige("one-argument-that-is-no-supported-operator:TypeError-nothing-built", z3.BoolVal(exc == "TypeError" and not made), detail=f"{exc} {made!r}")
        A, B = T("name-from-args"), T("type-from-args")
        r, exc = call([A, B], {})
        ok = exc is None and len(made) == 1 and len(made[0][0]) == 3 and made[0][0][0] is CLS and made[0][0][1] is A and made[0][0][2] is B and not made[0][1]
        eng.oblige("two-arguments(rebuild from .args):passed-through-in-order", z3.BoolVal(bool(ok)), detail=f"{made!r} {exc}")
        for n_bad in (0, 3):
            r, exc = call([A] * n_bad, {})
            eng.oblige(f"{n_bad}-arguments:ValueError-nothing-built", z3.BoolVal(exc == "ValueError" and not made), detail=f"{exc} {made!r}")
    return run_unit("number_ordered_form:NumberOperator.__new__", harness, functions=[(MODULE, "NumberOperator.__new__")], timeout_ms=timeout_ms)
