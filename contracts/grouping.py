"""Contract of block_diagonalization._group_close_energies (C16, C06): the grouping of explicit levels into degeneracy groups on which
solve_sylvester_direct relies (contracts/direct.py assumes it).

    returns a partition of the level indices such that
      (a) two levels whose energies differ by at most atol are in the same group   (so that the kernel basis handed to direct_greens_function
          contains EVERY explicit level at that energy: hypothesis `ker` of PV.Direct.constrained_injective),
      (b) every group is a chain: its members can be ordered so that neighbours differ by at most atol (nothing is merged without reason),
      (c) the empty list for no levels.

Real energies: argsort + split of the sorted order where the difference of neighbours exceeds atol - (a) and (b) are proved from the
monotonicity of the sorted sequence (Skolemised, quantifier free).  Complex energies: connected components of the graph whose edges are the
pairs within distance atol (KDTree.query_pairs); the obligations pin down the graph that is handed to connected_components.

Library facts assumed (A-NP2 / A-SC): np.argsort returns a permutation that sorts; a[perm] gathers; np.diff(s)[p] = s[p+1] - s[p];
np.nonzero(b)[0] lists the true positions in increasing order; np.split(a, pts) cuts a before every listed position;
KDTree(points).query_pairs(r) returns exactly the pairs i < j at Euclidean distance <= r; connected_components(graph, directed=False) labels
the connected components of the symmetrised graph 0 .. n_components-1; np.flatnonzero(labels == l) lists the members of component l.
"""
from __future__ import annotations

import ast

import z3

from pyvc import frontend
from pyvc.core import Closure, Env, STup, SI, SB, Model, Builtin, Namespace, Unsupported, SSlice, zi
from pyvc.unit import run_unit
from contracts.formats import T

MODULE = "block_diagonalization"
_CMP = {"Gt": lambda a, b: a > b, "GtE": lambda a, b: a >= b, "Lt": lambda a, b: a < b, "LtE": lambda a, b: a <= b}


def unit_group_close_energies(kind, timeout_ms=20000):
    """kind: 'real' | 'complex' | 'empty'"""
    node = frontend.find(MODULE, "_group_close_energies")

    def harness(eng):
        n = eng.fresh("n_levels")
        eng.assume(n == 0 if kind == "empty" else n >= 1)
        atol = eng.fresh("atol", "real")
        eng.assume(atol >= 0)
        S = z3.Function("sorted_energy", z3.IntSort(), z3.RealSort())     # energies[order][p]

        class En(Model):
            def m_len(s, e):
                return SI(n)

            def m_getitem(s, e, key):
                if isinstance(key, Order):
                    return Sorted()
                raise Unsupported(f"energies[{key!r}]")

            def m_getattr(s, e, name):
                if name in ("real", "imag"):
                    return T(name, s_en)
                raise Unsupported(f"energies.{name}")

            def m_truth(s, e):
                raise Unsupported("truth value of an array")
        s_en = En()

        class Order(Model):
            pass

        class Sorted(Model):
            pass

        class Diff(Model):
            """np.diff of the sorted energies: value(p) = S(p+1) - S(p), 0 <= p < n-1"""

            def value(s, p):
                return S(p + 1) - S(p)

            def m_binop(s, e, op, other, reflected):
                name = type(op).__name__
                if name in _CMP and other is ATOL and not reflected:
                    return BoolArr(lambda p: _CMP[name](s.value(p), atol))
                raise Unsupported(f"np.diff(...) {name} {other!r}")

        class BoolArr(Model):
            def __init__(s, pred):
                s.pred = pred       # over positions 0 .. n-2

        class Positions(Model):
            """increasing list of the positions p + shift with pred(p)"""

            def __init__(s, pred, shift=0):
                s.pred, s.shift = pred, shift

            def m_binop(s, e, op, other, reflected):
                if type(op).__name__ == "Add" and isinstance(other, int):
                    return Positions(s.pred, s.shift + other)
                if type(op).__name__ == "Sub" and isinstance(other, int) and not reflected:
                    return Positions(s.pred, s.shift - other)
                raise Unsupported("arithmetic on split points")

        class Runs(Model):
            def __init__(s, arr, pts):
                s.arr, s.pts = arr, pts
        ATOL = T("atol")
        log = {}

        def argsort(e, x):
            e.oblige("real:order-sorts-the-energies-given", z3.BoolVal(x is s_en))
            o = Order()
            log["order"] = o
            return o

        def diff(e, x):
            if not isinstance(x, Sorted):
                raise Unsupported(f"np.diff({x!r})")
            return Diff()

        def nonzero(e, b):
            if not isinstance(b, BoolArr):
                raise Unsupported(f"np.nonzero({b!r})")
            return STup([Positions(b.pred)])

        def split(e, arr, pts):
            if not isinstance(pts, Positions):
                raise Unsupported(f"np.split(_, {pts!r})")
            return Runs(arr, pts)

        # ---- complex branch models
        class PairSet(T):
            pass

        class PairArr(Model):
            def __init__(s, src, npairs):
                s.src, s.npairs = src, npairs

            def m_len(s, e):
                return SI(s.npairs)

            def m_getitem(s, e, key):
                k = e.as_seq(key)
                if len(k.items) == 2 and isinstance(k.items[0], SSlice) and k.items[0].lo is None and k.items[0].hi is None and isinstance(k.items[1], int):
                    return T("column", s.src, k.items[1])
                raise Unsupported("pairs[...]")

        class Tree(Model):
            def __init__(s, pts):
                s.pts = pts

            def m_getattr(s, e, name):
                if name == "query_pairs":
                    def qp(e2, r=None, **kw):
                        log["radius"] = r
                        log["points"] = s.pts
                        log["extra"] = kw
                        return PairSet("pairs_within_radius")
                    return Builtin("query_pairs", qp)
                raise Unsupported(f"KDTree.{name}")

        class Cat(Model):
            def __init__(s, parts):
                s.parts = parts

            def m_len(s, e):
                return SI(2 * npairs)

        class Graph(Model):
            def __init__(s, rows, cols, shape, data):
                s.rows, s.cols, s.shape, s.data = rows, cols, shape, data
        npairs = eng.fresh("n_pairs")
        eng.assume(npairs >= 0)

        def np_array(e, x, dtype=None):
            if isinstance(x, T) and x.head == "list" and isinstance(x.args[0], PairSet):
                return PairArr(x.args[0], npairs)
            raise Unsupported(f"np.array({x!r})")

        def coo_array(e, arg, shape=None, dtype=None):
            a = e.as_seq(arg)
            if len(a.items) == 2 and all(isinstance(x, (int, SI)) for x in a.items):
                return Graph(None, None, a, None)     # empty graph of the given shape
            data, rc = a.items
            rows, cols = e.as_seq(rc).items
            return Graph(rows, cols, e.as_seq(shape) if shape is not None else None, data)

        class NC(Model):
            pass

        class Labels(Model):
            def m_binop(s, e, op, other, reflected):
                if type(op).__name__ == "Eq":
                    return T("members_of", other)
                raise Unsupported("labels op")

        def connected_components(e, g, directed=True, **kw):
            log["graph"] = g
            log["directed"] = directed
            return STup([NC(), Labels()])

        class RangeNC(Model):
            def m_comprehension(s, e, ce, g, env):
                cenv = Env(env)
                cenv.is_comprehension = True
                lab = T("label")
                e.assign(g.target, lab, cenv)
                if g.ifs:
                    raise Unsupported("filtered comprehension over the component labels")
                return T("for_every_label", e.eval(ce.elt, cenv))

        def rng(e, *a):
            if len(a) == 1 and isinstance(a[0], NC):
                return RangeNC()
            raise Unsupported("range(...)")
        eng.globals.update({
            "np": Namespace("np", {"isrealobj": Builtin("isrealobj", lambda e, x: kind != "complex"), "argsort": Builtin("argsort", argsort), "diff": Builtin("diff", diff),
                                   "nonzero": Builtin("nonzero", nonzero), "split": Builtin("split", split),
                                   "column_stack": Builtin("column_stack", lambda e, t: T("column_stack", *e.as_seq(t).items)),
                                   "array": Builtin("array", np_array), "concatenate": Builtin("concatenate", lambda e, t: Cat(list(e.as_seq(t).items))),
                                   "ones": Builtin("ones", lambda e, m, dtype=None: T("ones", m)),
                                   "flatnonzero": Builtin("flatnonzero", lambda e, x: T("flatnonzero", x))}),
            "KDTree": Builtin("KDTree", lambda e, pts: Tree(pts)),
            "list": Builtin("list", lambda e, x: T("list", x)),
            "int": T("int"), "bool": T("bool"),
            "range": Builtin("range", rng),
            "sparse": Namespace("sparse", {"coo_array": Builtin("coo_array", coo_array),
                                           "csgraph": Namespace("csgraph", {"connected_components": Builtin("connected_components", connected_components)})}),
        })
        res = eng.call(Closure(node, Env(None, {}), "_group_close_energies"), [s_en, ATOL], {})
        if kind == "empty":
            ok = isinstance(res, (list, STup)) and len(eng.as_seq(res).items) == 0
            return eng.oblige("empty:no-levels-no-groups", z3.BoolVal(ok), detail=repr(res))
        if kind == "real":
            ok = isinstance(res, Runs) and res.arr is log.get("order")
            eng.oblige("real:groups-are-the-runs-of-the-whole-sorted-order-(partition)", z3.BoolVal(ok), detail=repr(res))
            if not ok:
                return
            pred, shift = res.pts.pred, res.pts.shift

            def is_split(s):      # the order is cut before position s
                return z3.And(s - shift >= 0, s - shift < n - 1, pred(s - shift))
            p, q, s = eng.fresh("p"), eng.fresh("q"), eng.fresh("s")
            mono = [z3.Implies(a <= b, S(a) <= S(b)) for a, b in ((p, s - 1), (s, q), (p, q), (s - 1, s))]
            # (a) by contradiction: a cut strictly between two close levels
            eng.oblige("real:levels-within-atol-are-never-separated",
                       z3.Implies(z3.And(0 <= p, p < s, s <= q, q < n, *mono, S(q) - S(p) <= atol), z3.Not(is_split(s))),
                       detail="for sorted positions p < s <= q with E[q] - E[p] <= atol the order is not cut before s")
            eng.oblige("real:cuts-lie-strictly-inside-the-order", z3.Implies(is_split(s), z3.And(s >= 1, s <= n - 1)),
                       detail="np.split with a cut at 0 or n would create an empty group")
            # (b) neighbours that stay together are within atol
            eng.oblige("real:neighbours-in-one-group-differ-by-at-most-atol",
                       z3.Implies(z3.And(1 <= s, s <= n - 1, z3.Not(is_split(s))), S(s) - S(s - 1) <= atol),
                       detail="no cut before s means E[s] - E[s-1] <= atol")
            return
        # complex
        g = log.get("graph")
        eng.oblige("complex:components-of-an-undirected-graph", z3.BoolVal(isinstance(g, Graph) and log.get("directed") is False))
        okp = isinstance(log.get("points"), T) and log["points"].head == "column_stack" and len(log["points"].args) == 2 \
            and {repr(a) for a in log["points"].args} == {repr(T("real", s_en)), repr(T("imag", s_en))} and all(a.args[0] is s_en for a in log["points"].args)
        eng.oblige("complex:points-are-real-and-imaginary-part-of-the-energies", z3.BoolVal(okp), detail=repr(log.get("points")))
        eng.oblige("complex:pairs-within-distance-atol", z3.BoolVal(log.get("radius") is ATOL and not log.get("extra")), detail=repr(log.get("radius")))
        if not isinstance(g, Graph):
            return
        shp_ok = g.shape is not None and len(g.shape.items) == 2 and all(isinstance(x, (int, SI)) for x in g.shape.items)
        eng.oblige("complex:graph-has-one-node-per-level", z3.And(zi(g.shape.items[0]) == n, zi(g.shape.items[1]) == n) if shp_ok else z3.BoolVal(False))
        if eng.branch(npairs > 0):
            def col(k):
                return lambda x: isinstance(x, T) and x.head == "column" and isinstance(x.args[0], PairSet) and x.args[1] == k
            oke = isinstance(g.rows, Cat) and isinstance(g.cols, Cat) and len(g.rows.parts) == len(g.cols.parts) and len(g.rows.parts) >= 1 \
                and any((col(0)(a) and col(1)(b)) or (col(1)(a) and col(0)(b)) for a, b in zip(g.rows.parts, g.cols.parts)) \
                and all((col(0)(a) and col(1)(b)) or (col(1)(a) and col(0)(b)) for a, b in zip(g.rows.parts, g.cols.parts))
            eng.oblige("complex:edges-are-exactly-the-close-pairs", z3.BoolVal(oke), detail=f"rows {getattr(g.rows, 'parts', g.rows)!r} cols {getattr(g.cols, 'parts', g.cols)!r}")
        else:
            eng.oblige("complex:no-close-pairs-no-edges", z3.BoolVal(g.rows is None and g.cols is None))
        okr = isinstance(res, T) and res.head == "for_every_label" and repr(res.args[0]) == repr(T("flatnonzero", T("members_of", T("label"))))
        eng.oblige("complex:one-group-per-component-holding-its-members", z3.BoolVal(okr), detail=repr(res))
    return run_unit(f"block_diagonalization:_group_close_energies[{kind}]", harness, functions=[(MODULE, "_group_close_energies")], timeout_ms=timeout_ms)
