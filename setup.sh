#!/bin/sh
# Build the overlay interpreter (offline): Python 3.12 venv with z3/cvc5/jsonschema from the
# local wheelhouse plus a .pth exposing /venv's site-packages (numpy/scipy/sympy + pymablock deps).
set -e
cd "$(dirname "$0")"
if [ ! -x .venv/bin/python ] || ! .venv/bin/python -c "import z3, cvc5, jsonschema, numpy, sympy" 2>/dev/null; then
  rm -rf .venv
  /venv/bin/python -m venv .venv
  PIP_NO_INDEX=1 .venv/bin/python -m pip install --quiet --no-index --find-links /opt/veriftools/wheels \
      z3-solver cvc5 jsonschema
  SP=$(.venv/bin/python -c "import site; print(site.getsitepackages()[0])")
  echo "import site; site.addsitedir('/venv/lib/python3.12/site-packages')" > "$SP/zz_repo_venv.pth"
fi
.venv/bin/python -c "import z3, cvc5, jsonschema, numpy, scipy, sympy; print('overlay venv ok', z3.get_version_string())"
