"""Independent matrix representation of NumberOrderedForm values (replay oracle for C07/C08).

Bosons: truncated Fock space (dimension D) with *unnormalised-free* standard matrices
a|n> = sqrt(n)|n-1>; ladder: shift on a window of a Z lattice; spin-1/2: 2-level
(SigmaMinus lowers |1>->|0>, number operator = |1><1|); fermions: Jordan-Wigner in the
order of the operator list.  Comparison must be done away from truncation edges.
Nothing here imports pymablock algorithms; it only reads `.operators` and `.args[1]`.
"""
import itertools
import numpy as np
import sympy
from sympy.physics.quantum.boson import BosonOp
from sympy.physics.quantum.fermion import FermionOp
from sympy.physics.quantum import pauli


def _kind(op):
    if isinstance(op, BosonOp):
        return "boson"
    if isinstance(op, FermionOp):
        return "fermion"
    if isinstance(op, pauli.SigmaMinus):
        return "spin"
    return "ladder"


class Rep:
    def __init__(self, operators, D=7):
        self.ops = list(operators)
        self.kinds = [_kind(o) for o in self.ops]
        self.dims = [D if k in ("boson", "ladder") else 2 for k in self.kinds]
        self.D = D
        self.dim = int(np.prod(self.dims)) if self.dims else 1
        # occupation label of each local basis state
        self.labels = [
            (np.arange(d) - (D // 2 if k == "ladder" else 0)) for d, k in zip(self.dims, self.kinds)
        ]
        self._ann = [self._annihilator(i) for i in range(len(self.ops))]

    def _local(self, i):
        d, k = self.dims[i], self.kinds[i]
        m = np.zeros((d, d), dtype=complex)
        for n in range(1, d):
            m[n - 1, n] = np.sqrt(n) if k == "boson" else 1.0
        return m

    def _annihilator(self, i):
        mats = []
        for j, (d, k) in enumerate(zip(self.dims, self.kinds)):
            if j == i:
                mats.append(self._local(i))
            elif j < i and k == "fermion" and self.kinds[i] == "fermion":
                mats.append(np.diag([1.0, -1.0]).astype(complex))
            else:
                mats.append(np.eye(d, dtype=complex))
        out = np.eye(1, dtype=complex)
        for m in mats:
            out = np.kron(out, m)
        return out

    def ann(self, i):
        return self._ann[i]

    def number_diag(self, i):
        """Diagonal of the number operator of mode i on the product basis."""
        grids = np.meshgrid(*self.labels, indexing="ij") if self.labels else []
        return grids[i].reshape(-1).astype(float)

    def coeff_matrix(self, coeff, placeholders):
        """Diagonal matrix of a commutative coefficient expression in the placeholders."""
        coeff = sympy.sympify(coeff)
        if not self.ops:
            return np.array([[complex(coeff)]])
        f = sympy.lambdify(placeholders, coeff, "numpy")
        args = [self.number_diag(i) for i in range(len(self.ops))]
        with np.errstate(all="ignore"):
            vals = np.asarray(f(*args), dtype=complex) * np.ones(self.dim)
        return np.diag(vals)

    def nof_matrix(self, nof):
        """Matrix of a NumberOrderedForm in the order c0^+ .. ck^+ f(N) ck .. c0."""
        assert list(nof.operators) == self.ops, (nof.operators, self.ops)
        ph = nof._number_operator_placeholders
        total = np.zeros((self.dim, self.dim), dtype=complex)
        for powers, coeff in nof.args[1]:
            m = self.coeff_matrix(coeff, ph)
            for i in reversed(range(len(self.ops))):
                p = int(powers[i])
                if p > 0:
                    m = m @ np.linalg.matrix_power(self.ann(i), p)
            for i in reversed(range(len(self.ops))):
                p = int(powers[i])
                if p < 0:
                    m = np.linalg.matrix_power(self.ann(i).conj().T, -p) @ m
            total = total + m
        return total

    def interior(self, margin):
        """Boolean mask of product-basis states at least `margin` away from any truncation edge."""
        masks = []
        for d, k in zip(self.dims, self.kinds):
            idx = np.arange(d)
            if k == "boson":
                masks.append(idx < d - margin)
            elif k == "ladder":
                masks.append((idx >= margin) & (idx < d - margin))
            else:
                masks.append(np.ones(d, dtype=bool))
        out = np.ones(1, dtype=bool)
        for m in masks:
            out = np.kron(out, m)
        return out.astype(bool)


def max_shift(*nofs):
    s = 0
    for nof in nofs:
        for powers, _ in nof.args[1]:
            s = max(s, sum(abs(int(p)) for p in powers))
    return s


def compare_on_interior(rep, mat_a, mat_b, margin, atol=1e-9):
    """Compare columns belonging to interior states (action on states far from the edge)."""
    cols = rep.interior(margin)
    diff = np.abs(mat_a[:, cols] - mat_b[:, cols])
    return float(diff.max()) if diff.size else 0.0
