"""Compare a junit xml of the repository's test suite with /root/.vp/BASELINE.json stable_pass list."""
import json, sys, xml.etree.ElementTree as ET
base = json.load(open('/root/.vp/BASELINE.json'))
want = set(base['stable_pass'])
root = ET.parse(sys.argv[1]).getroot()
passed = set()
for tc in root.iter('testcase'):
    name = f"{tc.get('classname')}::{tc.get('name')}"
    if not any(ch.tag in ('failure', 'error', 'skipped') for ch in tc):
        passed.add(name)
missing = sorted(want - passed)
print(f"baseline stable_pass={len(want)} passed_now={len(passed)} baseline_missing={len(missing)}")
for m in missing:
    print("  MISSING", m)
sys.exit(1 if missing else 0)
