"""PyVC core: path-replay symbolic interpreter for a Python subset, producing verification
conditions that are discharged by z3 (and re-checked by cvc5 / other z3 builds on demand).

Design (see DESIGN.md section 1.1):
* the target is the *real* AST taken from /repo at check time (or the AST objects returned by
  the repository's own `_parse_algorithm`);
* execution is forward symbolic execution, one path at a time; a branch on a symbolic condition
  asks the solver which sides are feasible, takes one and queues the other (the path prefix is
  replayed from the start, so no state copying is needed);
* calls to functions that have a contract are replaced by the contract (model objects implement
  that); unknown constructs abort with `Unsupported` (engine error, never a verdict);
* obligations are (path condition => goal) and are solved immediately; every obligation has a
  stable name so that a failing one can be reported as the violated obligation.
"""
from __future__ import annotations

import ast
import itertools
import time
from fractions import Fraction

import z3

from .nf import NF, Atom, ZK, unify_keys

# --------------------------------------------------------------------------------------
# control-flow signals


class Unsupported(Exception):
    """Construct outside the accepted subset: engine error (exit 3), not a verdict."""


class PathInfeasible(Exception):
    pass


class _Ret(Exception):
    def __init__(self, value):
        self.value = value


class _Brk(Exception):
    pass


class _Cont(Exception):
    pass


class PyRaise(Exception):
    """A Python exception raised by the interpreted program."""

    def __init__(self, exc):
        self.exc = exc


# --------------------------------------------------------------------------------------
# symbolic values


class SI:
    """Symbolic integer (or real when `real` is set)."""

    __slots__ = ("e",)

    def __init__(self, e):
        self.e = e

    def __repr__(self):
        return f"SI({self.e})"


class SB:
    __slots__ = ("e",)

    def __init__(self, e):
        self.e = e

    def __repr__(self):
        return f"SB({self.e})"


def zi(v):
    if isinstance(v, SI):
        return v.e
    if isinstance(v, bool):
        return z3.IntVal(int(v))
    if isinstance(v, int):
        return z3.IntVal(v)
    if isinstance(v, SB):
        return z3.If(v.e, z3.IntVal(1), z3.IntVal(0))
    if isinstance(v, Fraction):
        return z3.RealVal(str(v))
    if isinstance(v, float):
        return z3.RealVal(repr(v))
    raise Unsupported(f"not an integer value: {v!r}")


def zb(v):
    if isinstance(v, SB):
        return v.e
    if isinstance(v, bool):
        return z3.BoolVal(v)
    raise Unsupported(f"not a boolean value: {v!r}")


def wrap_int(e):
    e = z3.simplify(e)
    if z3.is_int_value(e):
        return e.as_long()
    return SI(e)


def wrap_bool(e):
    e = z3.simplify(e)
    if z3.is_true(e):
        return True
    if z3.is_false(e):
        return False
    return SB(e)


def is_intlike(v):
    return isinstance(v, (SI, int)) and not isinstance(v, bool) or isinstance(v, bool)


class SVec:
    """Integer vector of symbolic length (a Python tuple/list of ints whose arity is symbolic)."""

    __slots__ = ("arr", "n")

    def __init__(self, arr, n):
        self.arr = arr
        self.n = n

    def at(self, k):
        return z3.Select(self.arr, k)

    def __repr__(self):
        return f"SVec({self.arr}, len={self.n})"


class STup:
    """Tuple (or list when `is_list`) with concrete prefix items and optional symbolic tail."""

    __slots__ = ("items", "tail", "is_list")

    def __init__(self, items, tail=None, is_list=False):
        self.items = list(items)
        self.tail = tail
        self.is_list = is_list

    def __repr__(self):
        return f"STup({self.items}, tail={self.tail})"


class SExc:
    """Exception object. cls is a class name or None when symbolic (then `flags` holds z3 bools
    such as is_RuntimeError / is_Exception)."""

    def __init__(self, cls, args=(), flags=None, cause=None, tag=None):
        self.cls = cls
        self.args = tuple(args)
        self.flags = flags or {}
        self.cause = cause
        self.tag = tag

    def __repr__(self):
        return f"SExc({self.cls},{self.args})"


class SStr:
    """Opaque string (f-strings etc.)."""

    def __init__(self, text="<str>"):
        self.text = text


EXC_PARENTS = {
    "BaseException": None,
    "Exception": "BaseException",
    "KeyboardInterrupt": "BaseException",
    "RuntimeError": "Exception",
    "NotImplementedError": "RuntimeError",
    "RecursionError": "RuntimeError",
    "ValueError": "Exception",
    "TypeError": "Exception",
    "IndexError": "LookupError",
    "KeyError": "LookupError",
    "LookupError": "Exception",
    "AttributeError": "Exception",
    "ZeroDivisionError": "ArithmeticError",
    "ArithmeticError": "Exception",
    "ImportError": "Exception",
    "StopIteration": "Exception",
    "AssertionError": "Exception",
}


def exc_is_subclass(cls, parent):
    while cls is not None:
        if cls == parent:
            return True
        cls = EXC_PARENTS.get(cls, "Exception" if cls not in EXC_PARENTS else None)
    return False


class Model:
    """Base class of model objects (abstract stand-ins governed by contracts)."""

    def m_getattr(self, eng, name):
        raise Unsupported(f"{type(self).__name__}.{name}")

    def m_setattr(self, eng, name, value):
        raise Unsupported(f"{type(self).__name__}.{name} = ...")

    def m_getitem(self, eng, key):
        raise Unsupported(f"{type(self).__name__}[...]")

    def m_setitem(self, eng, key, value):
        raise Unsupported(f"{type(self).__name__}[...] = ...")

    def m_call(self, eng, args, kwargs):
        raise Unsupported(f"{type(self).__name__}(...)")

    def m_contains(self, eng, item):
        raise Unsupported(f"in {type(self).__name__}")

    def m_binop(self, eng, op, other, reflected):
        return NotImplemented

    def m_unop(self, eng, op):
        raise Unsupported(f"unary {op} {type(self).__name__}")

    def m_is(self, eng, other):
        return self is other

    def m_truth(self, eng):
        raise Unsupported(f"truth value of {type(self).__name__}")

    def m_iter(self, eng):
        raise Unsupported(f"iteration over {type(self).__name__}")

    def m_len(self, eng):
        raise Unsupported(f"len({type(self).__name__})")

    def m_isinstance(self, eng, clsname):
        return False


class SymKey(Model):
    """A dict key that is a tuple of symbolic integers (store-only; see Engine.hashable)."""

    def __init__(self, tup):
        self.tup = tup

    def __repr__(self):
        return f"SymKey({self.tup.items})"


class SymList(Model):
    """`[None] * n` with symbolic n: a list of symbolic length whose stores are logged (index, value); reads are not supported."""

    def __init__(self, n):
        self.n = n
        self.writes = []

    def m_len(self, eng):
        return SI(self.n)

    def m_setitem(self, eng, key, value):
        k = zi(key)
        eng.oblige(f"list-index-in-range@{eng.site()}", z3.And(k >= 0, k < self.n))
        self.writes.append((k, value))


class ExcClass(Model):
    def __init__(self, name):
        self.name = name

    def m_call(self, eng, args, kwargs):
        return SExc(self.name, args)

    def __repr__(self):
        return f"<exc class {self.name}>"


class Builtin(Model):
    def __init__(self, name, fn):
        self.name = name
        self.fn = fn

    def m_call(self, eng, args, kwargs):
        return self.fn(eng, *args, **kwargs)

    def __repr__(self):
        return f"<builtin {self.name}>"


class TypeObj(Model):
    """A class used only in isinstance tests (name or tuple of names)."""

    def __init__(self, name):
        self.name = name

    def __repr__(self):
        return f"<type {self.name}>"


class Namespace(Model):
    """Module-like object: attribute lookup in a dict."""

    def __init__(self, name, d):
        self.name = name
        self.d = d

    def m_getattr(self, eng, name):
        if name in self.d:
            return self.d[name]
        raise Unsupported(f"{self.name}.{name}")


class Closure(Model):
    """A Python function (ast.FunctionDef / ast.Lambda) with its defining environment."""

    def __init__(self, node, env, name=None, contract=None):
        self.node = node
        self.env = env
        self.name = name or getattr(node, "name", "<lambda>")
        self.contract = contract

    def m_call(self, eng, args, kwargs):
        if self.contract is not None:
            return self.contract(eng, args, kwargs)
        return eng.call_closure(self, args, kwargs)

    def __repr__(self):
        return f"<closure {self.name}>"


class Env:
    def __init__(self, parent=None, vars=None):
        self.parent = parent
        self.vars = dict(vars or {})

    def lookup(self, name):
        e = self
        while e is not None:
            if name in e.vars:
                return e.vars[name]
            e = e.parent
        raise KeyError(name)

    def has(self, name):
        e = self
        while e is not None:
            if name in e.vars:
                return True
            e = e.parent
        return False

    def set(self, name, value):
        self.vars[name] = value


# --------------------------------------------------------------------------------------
# obligations


class Obligation:
    def __init__(self, name, kind, status, detail="", model=None, secs=0.0, solver="z3", path=None):
        self.name = name
        self.kind = kind  # 'vc' | 'nf' | 'cover' | 'canary'
        self.status = status  # 'proved' | 'refuted' | 'unknown'
        self.detail = detail
        self.model = model
        self.secs = secs
        self.solver = solver
        self.path = path

    def as_dict(self):
        return {
            "name": self.name,
            "kind": self.kind,
            "status": self.status,
            "detail": (self.detail or "")[:2000],
            "model": self.model,
            "secs": round(self.secs, 4),
            "solver": self.solver,
            "path": self.path,
        }


# --------------------------------------------------------------------------------------
# the engine


class Engine:
    def __init__(self, unit, timeout_ms=10000, max_paths=4000):
        self.unit = unit  # name of the function under contract
        self.timeout_ms = timeout_ms
        self.max_paths = max_paths
        self.obligations = []
        self.paths_done = 0
        self.solver_secs = 0.0
        self.queries = 0
        self.globals = {}
        self.path_log = []
        self.events = []
        self._worklist = []
        self._smt_dump = None
        self.used_models = set()
        self.prune_tags = {"sentinel-arith"}
        self.pruned = {}
        self.loop_rules = {}
        self._call_node = None
        self._node_stack = []

    def site(self):
        n = self._call_node
        return f"L{getattr(n, 'lineno', '?')}" if n is not None else "L?"

    # ---- path management -------------------------------------------------------------
    def run(self, harness):
        """Execute `harness(engine)` over all feasible paths."""
        self._worklist = [[]]
        while self._worklist:
            if self.paths_done >= self.max_paths:
                raise Unsupported(f"{self.unit}: more than {self.max_paths} paths")
            prefix = self._worklist.pop()
            self._begin_path(prefix)
            try:
                harness(self)
            except PathInfeasible:
                pass
            except PyRaise as pr:
                tag = getattr(pr.exc, "tag", None)
                if tag in self.prune_tags:
                    # path excluded by a documented precondition (e.g. sentinel discipline P-ONE); counted
                    self.pruned[tag] = self.pruned.get(tag, 0) + 1
                else:
                    raise Unsupported(f"uncaught exception in harness: {pr.exc!r}")
            self.paths_done += 1
        return self.obligations

    def _begin_path(self, prefix):
        self.prefix = list(prefix)
        self.pos = 0
        self.decisions = []
        self.pc = []
        self.solver = z3.Solver()
        self.solver.set("timeout", self.timeout_ms)
        self._fresh = itertools.count()
        self.events = []
        self.facts = []  # (cond z3 Bool, Atom, NF value) : cond => atom == value
        self.ufacts = []  # universal facts: (fn k -> z3 Bool), instantiated on demand (never sent quantified)
        self.vec_table = {}
        self.any_facts = []
        self._vcache = {}
        self.path_id = "p" + "".join("T" if d else "F" for d in prefix) if prefix else "p"

    def fresh(self, base, sort="int"):
        name = f"{base}!{next(self._fresh)}"
        if sort == "int":
            return z3.Int(name)
        if sort == "bool":
            return z3.Bool(name)
        if sort == "real":
            return z3.Real(name)
        if isinstance(sort, z3.SortRef):
            return z3.Const(name, sort)
        raise ValueError(sort)

    def fresh_name(self, base):
        return f"{base}!{next(self._fresh)}"

    # ---- universally quantified facts / goals over vector positions --------------------
    def assume_forall(self, fn):
        """Record the fact  forall k. fn(k)  (instantiated at skolem positions when needed)."""
        self.ufacts.append(fn)

    def new_vec(self, elem_fn, n):
        """Integer vector of length n whose k-th element is elem_fn(k); hash-consed on the
        simplified element expression so that equal definitions are the same vector."""
        n = n if isinstance(n, z3.ExprRef) else z3.IntVal(n)
        e = z3.simplify(elem_fn(KAPPA))
        key = (e.get_id(), z3.simplify(n).get_id())
        if key in self.vec_table:
            return self.vec_table[key]
        if z3.is_select(e) and e.arg(1).get_id() == KAPPA.get_id() and not _mentions(e.arg(0), KAPPA):
            v = SVec(e.arg(0), n)  # the element expression is arr[k]: reuse arr
        else:
            arr = z3.Array(self.fresh_name("vec"), z3.IntSort(), z3.IntSort())
            v = SVec(arr, n)
            self.assume_forall(lambda k, arr=arr, e=e: z3.Select(arr, k) == z3.substitute(e, (KAPPA, k)))
        self.vec_table[key] = v
        return v

    def _instances(self, k):
        return [f(k) for f in self.ufacts]

    def oblige_forall(self, name, n, body, detail=""):
        """Obligation  forall 0 <= k < n. body(k)  proved at a fresh skolem position with all
        universal facts instantiated there (the solver never sees a quantifier)."""
        n = n if isinstance(n, z3.ExprRef) else z3.IntVal(n)
        ns = z3.simplify(n)
        if z3.is_int_value(ns):
            goal = z3.And(*[body(z3.IntVal(i)) for i in range(ns.as_long())]) if ns.as_long() else z3.BoolVal(True)
            ks = [z3.IntVal(i) for i in range(ns.as_long())]
        else:
            k0 = z3.Int(self.fresh_name("sk"))
            goal = z3.Implies(z3.And(k0 >= 0, k0 < n), body(k0))
            ks = [k0]
        self.solver.push()
        try:
            for k in ks:
                for inst in self._instances(k):
                    self.solver.add(inst)
            return self.oblige(name, goal, detail=detail)
        finally:
            self.solver.pop()

    def valid_forall(self, n, body):
        n = n if isinstance(n, z3.ExprRef) else z3.IntVal(n)
        k0 = z3.Int(self.fresh_name("sk"))
        self.solver.push()
        try:
            for inst in self._instances(k0):
                self.solver.add(inst)
            return self._check(z3.Not(z3.Implies(z3.And(k0 >= 0, k0 < n), body(k0)))) == z3.unsat
        finally:
            self.solver.pop()

    def assume(self, cond):
        if isinstance(cond, bool):
            if not cond:
                raise PathInfeasible()
            return
        cond = z3.simplify(cond)
        if z3.is_true(cond):
            return
        if z3.is_false(cond):
            raise PathInfeasible()
        self.pc.append(cond)
        self.solver.add(cond)

    def _check(self, *extra):
        t0 = time.time()
        r = self.solver.check(*extra)
        self.solver_secs += time.time() - t0
        self.queries += 1
        return r

    def feasible(self, cond):
        r = self._check(cond)
        return r != z3.unsat

    def valid(self, cond):
        """pc => cond ?  (True only when proved)."""
        cond = z3.simplify(cond)
        if z3.is_true(cond):
            return True
        if z3.is_false(cond) and not self.pc:
            return False
        return self._check(z3.Not(cond)) == z3.unsat

    def branch(self, cond):
        """Decide a symbolic condition on this path, forking when both sides are feasible."""
        if isinstance(cond, bool):
            return cond
        if isinstance(cond, SB):
            cond = cond.e
        cond = z3.simplify(cond)
        if z3.is_true(cond):
            return True
        if z3.is_false(cond):
            return False
        t = self.feasible(cond)
        f = self.feasible(z3.Not(cond))
        if t and f:
            if self.pos < len(self.prefix):
                d = self.prefix[self.pos]
            else:
                d = True
                self._worklist.append(self.decisions + [False])
            self.pos += 1
            self.decisions.append(d)
            self.assume(cond if d else z3.Not(cond))
            return d
        if t:
            self.assume(cond)
            return True
        if f:
            self.assume(z3.Not(cond))
            return False
        raise PathInfeasible()

    # ---- obligations -----------------------------------------------------------------
    def oblige(self, name, goal, kind="vc", detail=""):
        """Record obligation pc => goal and discharge it now."""
        full = f"{self.unit}/{name}"
        if isinstance(goal, bool):
            goal = z3.BoolVal(goal)
        if isinstance(goal, SB):
            goal = goal.e
        t0 = time.time()
        r = self._check(z3.Not(goal))
        msolver = self.solver
        if r == z3.unknown:
            # the incremental solver gave up (time budget): the verdict must not depend on machine load or on solver luck, so the query is
            # repeated from scratch with other seeds and a larger budget before it is reported as undecided
            for attempt, seed in enumerate((7, 23)):
                s2 = z3.Solver()
                s2.set("timeout", int(self.timeout_ms * (2 + 2 * attempt)))
                s2.set("random_seed", seed)
                s2.add(*self.solver.assertions())
                s2.add(z3.Not(goal))
                r2 = s2.check()
                self.queries += 1
                if r2 != z3.unknown:
                    r, msolver = r2, s2
                    break
        secs = time.time() - t0
        if r == z3.unsat:
            ob = Obligation(full, kind, "proved", detail, None, secs, "z3", self.path_id)
        elif r == z3.sat:
            m = msolver.model()
            ob = Obligation(full, kind, "refuted", detail + f" | goal: {goal}", _model_dict(m), secs, "z3", self.path_id)
        else:
            ob = Obligation(full, kind, "unknown", detail + f" | goal: {goal} | reason: {self.solver.reason_unknown()}", None, secs, "z3", self.path_id)
            ob.smt2 = self._smt2(goal)
        self.obligations.append(ob)
        return ob.status == "proved"

    def oblige_nra(self, name, goal, detail=""):
        """Obligation over nonlinear real arithmetic: uninterpreted function applications are
        generalised to fresh constants (sound for validity) and the query goes to nlsat."""
        full = f"{self.unit}/{name}"
        exprs = list(self.pc) + [goal]
        table = {}

        def collect(e):
            if z3.is_app(e):
                if e.num_args() > 0 and e.decl().kind() == z3.Z3_OP_UNINTERPRETED and e.sort() in (z3.RealSort(), z3.IntSort(), z3.BoolSort()):
                    if e.get_id() not in table:
                        table[e.get_id()] = (e, z3.Const(f"g!{len(table)}", e.sort()))
                    return
                for c in e.children():
                    collect(c)
        for e in exprs:
            collect(e)
        subs = list(table.values())
        ab = [z3.substitute(e, *subs) if subs else e for e in exprs]
        s = z3.Solver()
        s.set("timeout", self.timeout_ms)
        for c in ab[:-1]:
            if not _has_uf_or_quant(c):
                s.add(c)
        s.add(z3.Not(ab[-1]))
        t0 = time.time()
        r = s.check()
        if r == z3.unknown:
            for attempt, seed in enumerate((7, 23)):     # same policy as `oblige`: retry from scratch before reporting undecided
                s2 = z3.Solver()
                s2.set("timeout", int(self.timeout_ms * (2 + 2 * attempt)))
                s2.set("random_seed", seed)
                s2.add(*s.assertions())
                r2 = s2.check()
                self.queries += 1
                if r2 != z3.unknown:
                    r, s = r2, s2
                    break
        secs = time.time() - t0
        self.solver_secs += secs
        self.queries += 1
        if r == z3.unsat:
            ob = Obligation(full, "vc", "proved", detail, None, secs, "z3-nra", self.path_id)
        elif r == z3.sat:
            ob = Obligation(full, "vc", "refuted", detail + f" | goal: {goal}", _model_dict(s.model()), secs, "z3-nra", self.path_id)
        else:
            ob = Obligation(full, "vc", "unknown", detail + f" | reason: {s.reason_unknown()}", None, secs, "z3-nra", self.path_id)
            ob.smt2 = s.to_smt2()
        self.obligations.append(ob)
        return ob.status == "proved"

    def _smt2(self, goal):
        s = z3.Solver()
        for c in self.pc:
            s.add(c)
        s.add(z3.Not(goal))
        return s.to_smt2()

    def oblige_nf(self, name, got: NF, want: NF, detail=""):
        """Obligation: the two normal forms denote the same value on this path (modulo the
        path's facts about sentinel-valued atoms and provable equalities of integer arguments)."""
        full = f"{self.unit}/{name}"
        t0 = time.time()
        a = self.canon_nf(got)
        b = self.canon_nf(want)
        ok = a == b
        secs = time.time() - t0
        if ok:
            ob = Obligation(full, "nf", "proved", detail, None, secs, "nf+z3", self.path_id)
        else:
            diff = a - b
            m = None
            if self._check() == z3.sat:
                m = _model_dict(self.solver.model())
            ob = Obligation(full, "nf", "refuted", detail + f" | got: {a} | want: {b} | got-want: {diff}", m, secs, "nf+z3", self.path_id)
        self.obligations.append(ob)
        return ok

    def add_fact(self, cond, atom: Atom, value: NF):
        self.facts.append((cond, atom, value))

    def canon_nf(self, x: NF):
        """Merge integer/array arguments that are provably equal under the path condition, then
        apply the path facts (atom = 0 / 1 when its sentinel tag is forced); recurse into nested
        NFs (also inside the atoms the facts speak about); iterate to a fixpoint."""
        facts = [(c, a, v) for c, a, v in self.facts if self._validcache(c)]
        for _round in range(8):
            # 1. canonical representatives for all z3 leaves of x and of the fact atoms
            leaves = {}
            for a in _all_atoms(x):
                for zk in _zk_leaves(a.key):
                    leaves[zk] = zk.e
            for _c, atom, _v in facts:
                for zk in _zk_leaves(atom.key):
                    leaves[zk] = zk.e
            reps = {}
            ren = {}
            for zk, e in sorted(leaves.items(), key=lambda t: str(t[1])):
                srt = str(e.sort())
                for r in reps.setdefault(srt, []):
                    if self._eqcache(r, e):
                        ren[zk] = ZK(r)
                        break
                else:
                    reps[srt].append(e)
            x1 = _deep_rekey(x, ren) if ren else x
            facts1 = [(c, Atom(_rekey(a.key, ren), a.dag), v) for c, a, v in facts] if ren else facts
            # 2. facts: first normalise the fact atoms themselves by the facts about simpler atoms
            mapping = {}
            for _c, a, v in facts1:
                if a not in mapping:
                    mapping[a] = v
            changed = True
            guard = 0
            while changed and guard < 6:
                guard += 1
                changed = False
                new_map = {}
                for a, v in mapping.items():
                    k2 = _subst_key(a.key, {b: w for b, w in mapping.items() if b != a})
                    a2 = Atom(k2, a.dag)
                    if a2 != a:
                        changed = True
                    new_map.setdefault(a2, v)
                mapping = new_map
            facts = [(None, a, v) for a, v in mapping.items()]
            x2 = _deep_subst(x1, mapping) if mapping else x1
            if x2 == x:
                return x2
            x = x2
        return x

    def _eqcache(self, a, b):
        if a.get_id() == b.get_id():
            return True
        key = ("eq", a.get_id(), b.get_id(), len(self.pc))
        c = self._vcache
        if key not in c:
            c[key] = self.valid(a == b)
        return c[key]

    def _validcache(self, cond):
        if cond is None:
            return True
        key = ("v", cond.get_id(), len(self.pc))
        c = self._vcache
        if key not in c:
            c[key] = self.valid(cond)
        return c[key]

    # ---- calling ---------------------------------------------------------------------
    def call_closure(self, clo: Closure, args, kwargs):
        node = clo.node
        env = Env(clo.env)
        self.bind_arguments(node.args, env, list(args), dict(kwargs), clo)
        if isinstance(node, ast.Lambda):
            return self.eval(node.body, env)
        try:
            self.exec_block(node.body, env)
        except _Ret as r:
            return r.value
        return None

    def bind_arguments(self, a: ast.arguments, env, args, kwargs, clo):
        params = [p.arg for p in a.posonlyargs + a.args]
        defaults = a.defaults
        ndef = len(defaults)
        for i, p in enumerate(params):
            if i < len(args):
                env.set(p, args[i])
            elif p in kwargs:
                env.set(p, kwargs.pop(p))
            else:
                di = i - (len(params) - ndef)
                if di < 0:
                    raise Unsupported(f"missing argument {p} in call of {clo.name}")
                env.set(p, self.eval(defaults[di], clo.env))
        extra = args[len(params):]
        if a.vararg is not None:
            env.set(a.vararg.arg, pack_star(extra))
        elif extra:
            raise Unsupported(f"too many positional arguments for {clo.name}")
        for p, d in zip(a.kwonlyargs, a.kw_defaults):
            if p.arg in kwargs:
                env.set(p.arg, kwargs.pop(p.arg))
            elif d is not None:
                env.set(p.arg, self.eval(d, clo.env))
            else:
                raise Unsupported(f"missing keyword argument {p.arg}")
        if a.kwarg is not None:
            env.set(a.kwarg.arg, kwargs)
        elif kwargs:
            raise Unsupported(f"unexpected keyword arguments {list(kwargs)} for {clo.name}")

    def call(self, f, args, kwargs=None):
        kwargs = kwargs or {}
        if isinstance(f, Model):
            return f.m_call(self, list(args), kwargs)
        raise Unsupported(f"call of {f!r}")

    # ---- statements ------------------------------------------------------------------
    def exec_block(self, stmts, env):
        for s in stmts:
            self.exec_stmt(s, env)

    def exec_stmt(self, s, env):
        m = getattr(self, "s_" + type(s).__name__, None)
        if m is None:
            raise Unsupported(f"statement {type(s).__name__} at line {getattr(s, 'lineno', '?')}")
        return m(s, env)

    def s_Expr(self, s, env):
        if isinstance(s.value, ast.Constant) and isinstance(s.value.value, str):
            return  # docstring
        self.eval(s.value, env)

    def s_Pass(self, s, env):
        pass

    def s_Assign(self, s, env):
        v = self.eval(s.value, env)
        for t in s.targets:
            self.assign(t, v, env)

    def s_AnnAssign(self, s, env):
        if s.value is not None:
            self.assign(s.target, self.eval(s.value, env), env)

    def s_AugAssign(self, s, env):
        cur = self.eval(_load(s.target), env)
        v = self.eval(s.value, env)
        self.note_augassign(s, cur, v, env)
        self.assign(s.target, self.binop(s.op, cur, v, inplace=True), env)

    def note_augassign(self, s, cur, v, env):
        """Frame condition (C10): an in-place update must target an object allocated in this
        activation, never one that may be stored in a cache or owned by the caller."""
        alias = getattr(cur, "alias", None)
        if alias is not None:
            self.oblige(f"frame:augassign-target-fresh@L{s.lineno}", z3.BoolVal(alias == "fresh"),
                        detail=f"in-place update of a value whose aliasing class is {alias!r}")

    def assign(self, t, v, env):
        if isinstance(t, ast.Name):
            env.set(t.id, v)
        elif isinstance(t, (ast.Tuple, ast.List)):
            self.unpack(t.elts, v, env)
        elif isinstance(t, ast.Subscript):
            obj = self.eval(t.value, env)
            key = self.eval_slice(t.slice, env)
            self.setitem(obj, key, v)
        elif isinstance(t, ast.Attribute):
            obj = self.eval(t.value, env)
            if isinstance(obj, Model):
                obj.m_setattr(self, t.attr, v)
            else:
                raise Unsupported(f"attribute store on {obj!r}")
        elif isinstance(t, ast.Starred):
            raise Unsupported("bare starred target")
        else:
            raise Unsupported(f"assignment target {type(t).__name__}")

    def unpack(self, elts, v, env):
        star = [i for i, e in enumerate(elts) if isinstance(e, ast.Starred)]
        seq = self.as_seq(v)
        if not star:
            if seq.tail is not None or len(seq.items) != len(elts):
                if seq.tail is not None:
                    # arity must match on this path
                    need = len(elts) - len(seq.items)
                    if need < 0:
                        raise Unsupported("unpack arity")
                    self.assume(seq.tail.n == need)
                    items = seq.items + [wrap_int(seq.tail.at(z3.IntVal(k))) for k in range(need)]
                else:
                    raise PyRaise(SExc("ValueError", ("unpack",)))
            else:
                items = seq.items
            for e, x in zip(elts, items):
                self.assign(e, x, env)
            return
        (si,) = star
        before = elts[:si]
        after = elts[si + 1:]
        if after:
            if seq.tail is not None:
                raise Unsupported("starred unpack with trailing targets over symbolic tail")
            n = len(seq.items)
            mid = seq.items[len(before): n - len(after)]
            for e, x in zip(before, seq.items[: len(before)]):
                self.assign(e, x, env)
            self.assign(elts[si].value, STup(mid, None, True), env)
            for e, x in zip(after, seq.items[n - len(after):]):
                self.assign(e, x, env)
            return
        if len(seq.items) < len(before):
            if seq.tail is None:
                raise PyRaise(SExc("ValueError", ("unpack",)))
            raise Unsupported("prefix shorter than targets with symbolic tail")
        for e, x in zip(before, seq.items[: len(before)]):
            self.assign(e, x, env)
        self.assign(elts[si].value, STup(seq.items[len(before):], seq.tail, True), env)

    def s_Return(self, s, env):
        raise _Ret(self.eval(s.value, env) if s.value is not None else None)

    def s_If(self, s, env):
        if self.truth(self.eval(s.test, env)):
            self.exec_block(s.body, env)
        else:
            self.exec_block(s.orelse, env)

    def s_Assert(self, s, env):
        c = self.eval(s.test, env)
        name = f"assert@L{s.lineno}"
        if isinstance(c, (bool, SB)):
            self.oblige(name, zb(c) if not isinstance(c, bool) else z3.BoolVal(c), detail="assert statement in source is an obligation")
            self.assume(zb(c) if not isinstance(c, bool) else c)
        else:
            t = self.truth(c)
            self.oblige(name, z3.BoolVal(bool(t)), detail="assert statement in source is an obligation")

    def s_Raise(self, s, env):
        if s.exc is None:
            cur = env.lookup("__current_exception__") if env.has("__current_exception__") else None
            if cur is None:
                raise Unsupported("bare raise outside handler")
            raise PyRaise(cur)
        e = self.eval(s.exc, env)
        if isinstance(e, ExcClass):
            e = SExc(e.name, ())
        if not isinstance(e, SExc):
            raise Unsupported(f"raise of {e!r}")
        if s.cause is not None:
            e.cause = self.eval(s.cause, env)
        raise PyRaise(e)

    def s_Break(self, s, env):
        raise _Brk()

    def s_Continue(self, s, env):
        raise _Cont()

    def s_FunctionDef(self, s, env):
        clo = Closure(s, env, s.name)
        wrap = getattr(self, "nested_contracts", {}).get(s.name)     # a harness may put a nested function under its own (separately proved) contract
        env.set(s.name, wrap(clo) if wrap else clo)

    def s_Import(self, s, env):
        raise Unsupported("import statement")

    def s_ImportFrom(self, s, env):
        hook = self.globals.get("__import_hook__")
        if hook is None:
            raise Unsupported("import statement")
        hook(self, s, env)

    def s_With(self, s, env):
        # only context managers that do not affect values (np.errstate) are accepted
        for item in s.items:
            cm = self.eval(item.context_expr, env)
            if not getattr(cm, "transparent_context", False):
                raise Unsupported("with statement over a non-transparent context manager")
        self.exec_block(s.body, env)

    def s_Try(self, s, env):
        if s.finalbody:
            raise Unsupported("try/finally")
        try:
            self.exec_block(s.body, env)
        except PyRaise as pr:
            exc = pr.exc
            for h in s.handlers:
                if self.handler_matches(h, exc, env):
                    henv = env
                    if h.name:
                        henv.set(h.name, exc)
                    saved = env.vars.get("__current_exception__")
                    env.set("__current_exception__", exc)
                    try:
                        self.exec_block(h.body, henv)
                    except PyRaise as inner:
                        if inner.exc is not exc and inner.exc.cause is None:
                            inner.exc.context = exc
                        raise
                    finally:
                        env.vars["__current_exception__"] = saved
                    return
            raise
        else:
            self.exec_block(s.orelse, env)

    def handler_matches(self, h, exc, env):
        if h.type is None:
            return True
        t = self.eval(h.type, env)
        names = [x.name for x in (t.items if isinstance(t, STup) else [t])]
        if exc.cls is not None:
            return any(exc_is_subclass(exc.cls, n) for n in names)
        # symbolic class
        conds = []
        for n in names:
            key = "is_" + n
            if key not in exc.flags:
                raise Unsupported(f"symbolic exception has no flag {key}")
            conds.append(exc.flags[key])
        return self.branch(z3.Or(*conds))

    def s_For(self, s, env):
        it = self.eval(s.iter, env)
        if isinstance(it, Model) and hasattr(it, "m_for"):
            return it.m_for(self, s, env)
        seq = self.as_seq(it)
        if seq.tail is not None:
            raise Unsupported(f"for-loop over a sequence of symbolic length at line {s.lineno} (needs a loop rule)")
        broke = False
        for x in seq.items:
            self.assign(s.target, x, env)
            try:
                self.exec_block(s.body, env)
            except _Brk:
                broke = True
                break
            except _Cont:
                continue
        if not broke:
            self.exec_block(s.orelse, env)

    def s_While(self, s, env):
        rule = getattr(self, "while_rule", None)
        if rule is not None:
            return rule(self, s, env)
        n = 0
        while self.truth(self.eval(s.test, env)):
            n += 1
            if n > 64:
                raise Unsupported("while loop did not terminate within 64 concrete iterations (needs an invariant)")
            try:
                self.exec_block(s.body, env)
            except _Brk:
                return
            except _Cont:
                continue
        self.exec_block(s.orelse, env)

    def s_Delete(self, s, env):
        raise Unsupported("del statement")

    # ---- expressions -----------------------------------------------------------------
    def eval(self, e, env):
        m = getattr(self, "e_" + type(e).__name__, None)
        if m is None:
            raise Unsupported(f"expression {type(e).__name__} at line {getattr(e, 'lineno', '?')}")
        return m(e, env)

    def e_Constant(self, e, env):
        return e.value

    def e_Name(self, e, env):
        try:
            return env.lookup(e.id)
        except KeyError:
            if e.id in self.globals:
                return self.globals[e.id]
            if e.id in EXC_PARENTS:
                return ExcClass(e.id)
            # a module-level helper of the code under contract that has no contract of its own: its real body is executed (inlined)
            for mod in getattr(self, "source_modules", ()):
                try:
                    from . import frontend
                    node = frontend.find(mod, e.id)
                except Exception:
                    continue
                if isinstance(node, ast.FunctionDef):
                    self.used_models.add(f"inlined helper {mod}.{e.id} (no contract of its own)")
                    return Closure(node, Env(None, {}), e.id)
            raise Unsupported(f"unknown name {e.id!r}")

    def e_Tuple(self, e, env):
        return self.build_seq(e.elts, env, False)

    def e_List(self, e, env):
        return self.build_seq(e.elts, env, True)

    def build_seq(self, elts, env, is_list):
        items = []
        tail = None
        for x in elts:
            if isinstance(x, ast.Starred):
                v = self.as_seq(self.eval(x.value, env))
                if tail is not None:
                    raise Unsupported("elements after a symbolic-length starred element")
                items += v.items
                tail = v.tail
            else:
                if tail is not None:
                    raise Unsupported("elements after a symbolic-length starred element")
                items.append(self.eval(x, env))
        return STup(items, tail, is_list)

    def e_Dict(self, e, env):
        d = {}
        for k, v in zip(e.keys, e.values):
            if k is None:
                sub = self.eval(v, env)
                if not isinstance(sub, dict):
                    raise Unsupported("** of non-dict")
                d.update(sub)
            else:
                d[self.hashable(self.eval(k, env))] = self.eval(v, env)
        return d

    def hashable(self, v, store=False):
        if isinstance(v, STup) and v.tail is None and all(isinstance(i, (int, str, bool, type(None))) for i in v.items):
            return tuple(v.items)
        if store and getattr(self, "allow_symbolic_keys", False) and isinstance(v, STup) and v.tail is None \
                and all(isinstance(i, (int, SI)) and not isinstance(i, bool) for i in v.items):
            return SymKey(v)   # store-only key: never equal to another key (the unit's precondition says keys are distinct)
        if isinstance(v, (int, str, bool, type(None))):
            return v
        if isinstance(v, Model) and type(v).__hash__ is not None:
            return v
        raise Unsupported(f"dict key {v!r}")

    def e_Set(self, e, env):
        return STup([self.eval(x, env) for x in e.elts], None, True)

    def e_JoinedStr(self, e, env):
        parts = []
        for v in e.values:
            if isinstance(v, ast.Constant):
                parts.append(str(v.value))
            elif isinstance(v, ast.FormattedValue) and v.format_spec is None and v.conversion == -1:
                x = self.eval(v.value, env)
                if isinstance(x, (str, int)) and not isinstance(x, bool):
                    parts.append(str(x))
                else:
                    return SStr()
            else:
                return SStr()
        return "".join(parts)

    def e_Lambda(self, e, env):
        return Closure(e, env)

    def e_IfExp(self, e, env):
        if self.truth(self.eval(e.test, env)):
            return self.eval(e.body, env)
        return self.eval(e.orelse, env)

    def e_NamedExpr(self, e, env):
        v = self.eval(e.value, env)
        self.assign_walrus(e.target, v, env)
        return v

    def assign_walrus(self, target, v, env):
        # walrus binds in the enclosing function scope (comprehension scopes are transparent)
        e = env
        while getattr(e, "is_comprehension", False):
            e = e.parent
        e.set(target.id, v)

    def e_Attribute(self, e, env):
        obj = self.eval(e.value, env)
        return self.getattr(obj, e.attr)

    def getattr(self, obj, name):
        if isinstance(obj, Model):
            return obj.m_getattr(self, name)
        if isinstance(obj, STup):
            return self.seq_method(obj, name)
        if isinstance(obj, dict):
            return self.dict_method(obj, name)
        raise Unsupported(f"attribute {name} of {obj!r}")

    def seq_method(self, obj, name):
        if name == "append" and obj.is_list:
            def append(eng, x):
                if obj.tail is not None:
                    raise Unsupported("append to symbolic-length list")
                obj.items.append(x)
            return Builtin("list.append", append)
        if name == "index":
            def index(eng, x):
                for i, it in enumerate(obj.items):
                    if eng.truth(eng.compare_eq(it, x)):
                        return i
                raise PyRaise(SExc("ValueError", ("not in list",)))
            return Builtin("index", index)
        raise Unsupported(f"sequence method {name}")

    def dict_method(self, obj, name):
        if name == "get":
            return Builtin("dict.get", lambda eng, k, d=None: obj.get(eng.hashable(k), d))
        if name == "items":
            return Builtin("dict.items", lambda eng: STup([STup([k if not isinstance(k, tuple) else STup(list(k)), v]) for k, v in obj.items()], None, True))
        if name == "values":
            return Builtin("dict.values", lambda eng: STup(list(obj.values()), None, True))
        if name == "keys":
            return Builtin("dict.keys", lambda eng: STup([k if not isinstance(k, tuple) else STup(list(k)) for k in obj], None, True))
        if name == "pop":
            # concrete dictionaries with concrete keys only; every path is replayed from the start, so the in-place update is per path
            def pop(eng, k, *d):
                hk = eng.hashable(k)
                if hk in obj:
                    return obj.pop(hk)
                if d:
                    return d[0]
                raise PyRaise(SExc("KeyError", (k,)))
            return Builtin("dict.pop", pop)
        raise Unsupported(f"dict method {name}")

    def e_Subscript(self, e, env):
        obj = self.eval(e.value, env)
        key = self.eval_slice(e.slice, env)
        self._call_node = e
        return self.getitem(obj, key)

    def eval_slice(self, sl, env):
        if isinstance(sl, ast.Slice):
            return SSlice(
                self.eval(sl.lower, env) if sl.lower is not None else None,
                self.eval(sl.upper, env) if sl.upper is not None else None,
                self.eval(sl.step, env) if sl.step is not None else None,
            )
        if isinstance(sl, ast.Tuple):
            items = []
            tail = None
            for x in sl.elts:
                if isinstance(x, ast.Slice):
                    items.append(self.eval_slice(x, env))
                elif isinstance(x, ast.Starred):
                    v = self.as_seq(self.eval(x.value, env))
                    items += v.items
                    tail = v.tail
                else:
                    items.append(self.eval(x, env))
            return STup(items, tail)
        return self.eval(sl, env)

    def getitem(self, obj, key):
        if isinstance(obj, Model):
            return obj.m_getitem(self, key)
        if isinstance(obj, STup):
            return self.seq_getitem(obj, key)
        if isinstance(obj, dict):
            if any(isinstance(q, SymKey) for q in obj):
                raise Unsupported("lookup in a dict with symbolic keys")
            k = self.hashable(key)
            if k not in obj:
                raise PyRaise(SExc("KeyError", (k,)))
            return obj[k]
        raise Unsupported(f"subscript of {obj!r}")

    def seq_getitem(self, obj, key):
        n = len(obj.items)
        if isinstance(key, SSlice):
            if key.step is not None:
                raise Unsupported("slice step on tuple")
            lo, hi = key.lo, key.hi
            if not all(isinstance(x, (int, type(None))) for x in (lo, hi)):
                raise Unsupported("symbolic slice bounds on tuple")
            if obj.tail is None:
                return STup(obj.items[slice(lo, hi)], None, obj.is_list)
            lo = 0 if lo is None else lo
            if lo < 0 or (hi is not None and hi < 0):
                # negative bounds relative to a symbolic length
                raise Unsupported("negative slice bound on symbolic-length tuple")
            if hi is None:
                if lo <= n:
                    return STup(obj.items[lo:], obj.tail, obj.is_list)
                raise Unsupported("slice start inside symbolic tail")
            if hi <= n:
                return STup(obj.items[lo:hi], None, obj.is_list)
            raise Unsupported("slice end inside symbolic tail")
        if isinstance(key, bool):
            key = int(key)
        if isinstance(key, int):
            if key >= 0:
                if key < n:
                    return obj.items[key]
                if obj.tail is None:
                    raise PyRaise(SExc("IndexError", ("tuple index out of range",)))
                k = key - n
                if not self.valid(obj.tail.n > k):
                    raise Unsupported("index possibly beyond symbolic tail")
                return wrap_int(obj.tail.at(z3.IntVal(k)))
            if obj.tail is None:
                if -key <= n:
                    return obj.items[key]
                raise PyRaise(SExc("IndexError", ("tuple index out of range",)))
            raise Unsupported("negative index on symbolic-length tuple")
        if isinstance(key, SI):
            if obj.tail is None and obj.items:
                # symbolic index into concrete tuple: case split
                for i in range(n):
                    if self.branch(key.e == i):
                        return obj.items[i]
                raise PyRaise(SExc("IndexError", ("tuple index out of range",)))
            if not obj.items and obj.tail is not None:
                ok = z3.And(key.e >= 0, key.e < obj.tail.n)
                if not self.valid(ok):
                    raise Unsupported("symbolic index possibly out of range of symbolic tuple")
                return wrap_int(obj.tail.at(key.e))
        raise Unsupported(f"tuple index {key!r}")

    def setitem(self, obj, key, v):
        if isinstance(obj, Model):
            return obj.m_setitem(self, key, v)
        if isinstance(obj, dict):
            obj[self.hashable(key, store=True)] = v
            return
        if isinstance(obj, STup) and obj.is_list and isinstance(key, int) and obj.tail is None:
            obj.items[key] = v
            return
        raise Unsupported(f"subscript store on {obj!r}")

    def e_Starred(self, e, env):
        raise Unsupported("starred expression outside call/tuple")

    def e_Call(self, e, env):
        f = self.eval(e.func, env)
        args = []
        for a in e.args:
            if isinstance(a, ast.Starred):
                v = self.eval(a.value, env)
                seq = self.as_seq(v)
                if seq.tail is not None:
                    args.append(StarTail(seq))
                else:
                    args += seq.items
            else:
                args.append(self.eval(a, env))
        kwargs = {}
        for k in e.keywords:
            if k.arg is None:
                sub = self.eval(k.value, env)
                if not isinstance(sub, dict):
                    raise Unsupported("** of non-dict in call")
                kwargs.update(sub)
            else:
                kwargs[k.arg] = self.eval(k.value, env)
        self._call_node = e
        return self.call(f, args, kwargs)

    def e_UnaryOp(self, e, env):
        v = self.eval(e.operand, env)
        return self.unop(e.op, v)

    def unop(self, op, v):
        if isinstance(op, ast.Not):
            t = v if isinstance(v, (bool, SB)) else self.truth(v)
            return (not t) if isinstance(t, bool) else wrap_bool(z3.Not(t.e))
        if isinstance(v, Model):
            return v.m_unop(self, op)
        if isinstance(op, ast.USub):
            if isinstance(v, (int, float, Fraction)) and not isinstance(v, bool):
                return -v
            return wrap_int(-zi(v))
        if isinstance(op, ast.UAdd):
            return v
        if isinstance(op, ast.Invert):
            raise Unsupported("~ on non-model value")
        raise Unsupported(f"unary {type(op).__name__}")

    def e_BinOp(self, e, env):
        l = self.eval(e.left, env)
        r = self.eval(e.right, env)
        return self.binop(e.op, l, r)

    def binop(self, op, l, r, inplace=False):
        if isinstance(l, str) and isinstance(op, ast.Mod):
            return l        # printf-style formatting of a message: the text is not modelled (only used in exception / warning messages)
        if isinstance(l, Model):
            res = l.m_binop(self, op, r, False)
            if res is not NotImplemented:
                return res
        if isinstance(r, Model):
            res = r.m_binop(self, op, l, True)
            if res is not NotImplemented:
                return res
        if isinstance(l, Model) or isinstance(r, Model):
            raise Unsupported(f"binary {type(op).__name__} on {l!r}, {r!r}")
        if isinstance(l, STup) and isinstance(r, STup) and isinstance(op, ast.Add):
            if l.tail is not None:
                raise Unsupported("concatenation after symbolic tail")
            return STup(l.items + r.items, r.tail, l.is_list)
        if isinstance(r, STup) and isinstance(op, ast.Mult) and isinstance(l, (int, SI)) and not isinstance(l, bool):
            l, r = r, l
        if isinstance(l, STup) and isinstance(op, ast.Mult) and isinstance(r, int):
            if l.tail is not None:
                raise Unsupported("repeat symbolic tuple")
            return STup(l.items * r, None, l.is_list)
        if isinstance(l, STup) and isinstance(op, ast.Mult) and isinstance(r, SI):
            if l.tail is None and len(l.items) == 1 and isinstance(l.items[0], int) and not isinstance(l.items[0], bool):
                c = l.items[0]
                self.assume(r.e >= 0)
                return STup([], SVec(z3.K(z3.IntSort(), z3.IntVal(c)), r.e), l.is_list)
            if l.tail is None and len(l.items) == 1 and l.items[0] is None and l.is_list:
                self.assume(r.e >= 0)
                return SymList(r.e)
            raise Unsupported("repeat of tuple by symbolic count")
        concrete = all(isinstance(x, (int, float, Fraction)) for x in (l, r))
        if concrete:
            return _concrete_binop(op, l, r)
        a, b = zi(l), zi(r)
        if isinstance(op, ast.Add):
            return wrap_int(a + b)
        if isinstance(op, ast.Sub):
            return wrap_int(a - b)
        if isinstance(op, ast.Mult):
            return wrap_int(a * b)
        if isinstance(op, ast.FloorDiv):
            if not self.valid(b != 0):
                if self.branch(b == 0):
                    raise PyRaise(SExc("ZeroDivisionError", ()))
            # python floor division
            return wrap_int(z3.If(b > 0, a / b, -((-a) / (-b)) if False else (a / b)))  # z3 int div floors for b>0
        if isinstance(op, ast.Mod):
            if not self.valid(b > 0):
                raise Unsupported("modulo by possibly non-positive symbolic integer")
            return wrap_int(a % b)
        if isinstance(op, ast.Pow):
            if isinstance(r, int) and 0 <= r <= 4:
                out = z3.IntVal(1)
                for _ in range(r):
                    out = out * a
                return wrap_int(out)
            raise Unsupported("symbolic power")
        raise Unsupported(f"binary {type(op).__name__} on symbolic integers")

    def e_BoolOp(self, e, env):
        is_and = isinstance(e.op, ast.And)
        last = None
        for i, x in enumerate(e.values):
            last = self.eval(x, env)
            if i == len(e.values) - 1:
                return last
            t = self.truth(last)
            if is_and and not t:
                return last
            if not is_and and t:
                return last
        return last

    def e_Compare(self, e, env):
        left = self.eval(e.left, env)
        result = True
        for op, right_e in zip(e.ops, e.comparators):
            right = self.eval(right_e, env)
            r = self.compare(op, left, right)
            if len(e.ops) == 1:
                return r
            if not self.truth(r):
                return False
            left = right
        return result

    def compare(self, op, l, r):
        if isinstance(op, ast.Is):
            return self.is_(l, r)
        if isinstance(op, ast.IsNot):
            return self.unop(ast.Not(), self.is_(l, r))
        if isinstance(op, ast.In):
            return self.contains(r, l)
        if isinstance(op, ast.NotIn):
            return self.unop(ast.Not(), self.contains(r, l))
        if isinstance(op, ast.Eq):
            return self.compare_eq(l, r)
        if isinstance(op, ast.NotEq):
            return self.unop(ast.Not(), self.compare_eq(l, r))
        if isinstance(l, Model) or isinstance(r, Model):
            m = l if isinstance(l, Model) else r
            res = m.m_binop(self, op, r if m is l else l, m is not l)
            if res is NotImplemented:
                raise Unsupported(f"comparison {type(op).__name__} on {l!r}, {r!r}")
            return res
        if isinstance(l, STup) and isinstance(r, STup):
            return self.compare_seq(op, l, r)
        if all(isinstance(x, (int, float, Fraction)) for x in (l, r)):
            return _concrete_cmp(op, l, r)
        a, b = zi(l), zi(r)
        if isinstance(op, ast.Lt):
            return wrap_bool(a < b)
        if isinstance(op, ast.LtE):
            return wrap_bool(a <= b)
        if isinstance(op, ast.Gt):
            return wrap_bool(a > b)
        if isinstance(op, ast.GtE):
            return wrap_bool(a >= b)
        raise Unsupported(f"comparison {type(op).__name__}")

    def compare_eq(self, l, r):
        if l is r and not isinstance(l, (SI, SB)):
            return True
        if isinstance(l, Model):
            res = l.m_binop(self, ast.Eq(), r, False)
            if res is not NotImplemented:
                return res
        if isinstance(r, Model):
            res = r.m_binop(self, ast.Eq(), l, True)
            if res is not NotImplemented:
                return res
        if isinstance(l, STup) and isinstance(r, STup):
            return self.compare_seq(ast.Eq(), l, r)
        if l is None or r is None:
            return l is r
        if isinstance(l, str) or isinstance(r, str):
            return l == r
        if isinstance(l, (STup,)) != isinstance(r, (STup,)):
            return False
        if all(isinstance(x, (int, float, Fraction, bool)) for x in (l, r)):
            return l == r
        if isinstance(l, (SI, SB, int, bool)) and isinstance(r, (SI, SB, int, bool)):
            return wrap_bool(zi(l) == zi(r))
        raise Unsupported(f"== on {l!r}, {r!r}")

    def compare_seq(self, op, l, r):
        """Lexicographic comparison of tuples (Python semantics)."""
        # pure symbolic vectors of equal length
        if not l.items and not r.items and l.tail is not None and r.tail is not None:
            if not self.valid(l.tail.n == r.tail.n):
                raise Unsupported("comparison of symbolic tuples of possibly different length")
            if isinstance(op, ast.Eq):
                return wrap_bool(vec_eq(l.tail, r.tail))
            if isinstance(op, ast.Gt):
                return wrap_bool(vec_lexgt(l.tail, r.tail))
            if isinstance(op, ast.Lt):
                return wrap_bool(vec_lexgt(r.tail, l.tail))
            if isinstance(op, ast.GtE):
                return wrap_bool(z3.Or(vec_lexgt(l.tail, r.tail), vec_eq(l.tail, r.tail)))
            if isinstance(op, ast.LtE):
                return wrap_bool(z3.Or(vec_lexgt(r.tail, l.tail), vec_eq(l.tail, r.tail)))
        if l.tail is not None or r.tail is not None:
            # mixed prefix + tail: equality only, componentwise when shapes agree
            if isinstance(op, ast.Eq) and len(l.items) == len(r.items) and l.tail is not None and r.tail is not None:
                if not self.valid(l.tail.n == r.tail.n):
                    raise Unsupported("== of tuples with symbolic tails of different length")
                conds = [zb_of(self.compare_eq(a, b)) for a, b in zip(l.items, r.items)]
                return wrap_bool(z3.And(*conds, vec_eq(l.tail, r.tail)))
            raise Unsupported("ordering comparison of tuples with symbolic tail")
        if isinstance(op, ast.Eq):
            if len(l.items) != len(r.items):
                return False
            conds = [zb_of(self.compare_eq(a, b)) for a, b in zip(l.items, r.items)]
            return wrap_bool(z3.And(*conds)) if conds else True
        # lexicographic order on concrete-length tuples
        strict = isinstance(op, (ast.Lt, ast.Gt))
        if isinstance(op, (ast.Gt, ast.GtE)):
            l, r = r, l
        # now l < r or l <= r
        n = min(len(l.items), len(r.items))
        res = z3.BoolVal((len(l.items) < len(r.items)) if strict else (len(l.items) <= len(r.items)))
        for a, b in reversed(list(zip(l.items[:n], r.items[:n]))):
            res = z3.Or(zi(a) < zi(b), z3.And(zi(a) == zi(b), res))
        return wrap_bool(res)

    def is_(self, l, r):
        if getattr(self, "int_is_eq", False) and isinstance(l, (int, SI)) and isinstance(r, (int, SI)) \
                and not isinstance(l, bool) and not isinstance(r, bool):
            return self.compare_eq(l, r)   # sympy singletons: `x is One` for sympified integers (A-SY1)
        if isinstance(l, Model):
            return l.m_is(self, r)
        if isinstance(r, Model):
            return r.m_is(self, l)
        if l is None or r is None:
            return l is r
        if isinstance(l, bool) or isinstance(r, bool):
            return l is r
        raise Unsupported(f"'is' on {l!r}, {r!r}")

    def contains(self, container, item):
        if isinstance(container, Model):
            return container.m_contains(self, item)
        if isinstance(container, dict):
            if any(isinstance(q, SymKey) for q in container):
                raise Unsupported("membership in a dict with symbolic keys")
            return self.hashable(item) in container
        if isinstance(container, STup):
            if container.tail is not None:
                raise Unsupported("'in' on symbolic-length sequence")
            conds = []
            for x in container.items:
                c = self.compare_eq(x, item)
                if c is True:
                    return True
                if c is not False:
                    conds.append(zb(c))
            return wrap_bool(z3.Or(*conds)) if conds else False
        raise Unsupported(f"'in' on {container!r}")

    def truth(self, v):
        """Python truthiness as a concrete bool on this path (forks if needed)."""
        if isinstance(v, bool):
            return v
        if isinstance(v, SB):
            return self.branch(v.e)
        if v is None:
            return False
        if isinstance(v, int):
            return v != 0
        if isinstance(v, SI):
            return self.branch(v.e != 0)
        if isinstance(v, (str,)):
            return bool(v)
        if isinstance(v, STup):
            if v.items:
                return True
            if v.tail is None:
                return False
            return self.branch(v.tail.n > 0)
        if isinstance(v, dict):
            return bool(v)
        if isinstance(v, Model):
            t = v.m_truth(self)
            return t if isinstance(t, bool) else self.truth(t)
        raise Unsupported(f"truth value of {v!r}")

    def as_seq(self, v):
        if isinstance(v, STup):
            return v
        if isinstance(v, StarTail):
            return v.seq
        if isinstance(v, Model):
            return v.m_iter(self)
        if isinstance(v, dict):
            return STup([k if not isinstance(k, tuple) else STup(list(k)) for k in v], None, True)
        raise Unsupported(f"not iterable: {v!r}")

    # ---- comprehensions --------------------------------------------------------------
    def e_GeneratorExp(self, e, env):
        return self.comprehension(e, env)

    def e_ListComp(self, e, env):
        r = self.comprehension(e, env)
        if isinstance(r, STup):
            r.is_list = True
        return r

    def e_SetComp(self, e, env):
        r = self.comprehension(e, env)
        if isinstance(r, STup) and r.tail is None:
            out = []
            for x in r.items:
                if not any(self.truth(self.compare_eq(x, y)) for y in out):
                    out.append(x)
            return STup(out, None, True)
        return r

    def e_DictComp(self, e, env):
        if len(e.generators) != 1:
            raise Unsupported("nested dict comprehension")
        g = e.generators[0]
        it = self.eval(g.iter, env)
        if isinstance(it, Model) and getattr(it, "dictcomp_ok", False):
            return it.m_comprehension(self, e, g, env)      # loop rule of the model (e is an ast.DictComp: key / value instead of elt)
        seq = self.as_seq(it)
        if seq.tail is not None:
            raise Unsupported("dict comprehension over symbolic length")
        out = {}
        # one scope for the whole comprehension (Python semantics): closures created by the element expressions share the
        # loop variable and see its last value (late binding)
        cenv = Env(env)
        cenv.is_comprehension = True
        for x in seq.items:
            self.assign(g.target, x, cenv)
            if all(self.truth(self.eval(c, cenv)) for c in g.ifs):
                out[self.hashable(self.eval(e.key, cenv))] = self.eval(e.value, cenv)
        return out

    def comprehension(self, e, env):
        if len(e.generators) != 1:
            return self._nested_comprehension(e, env, 0, env)
        g = e.generators[0]
        it = self.eval(g.iter, env)
        if isinstance(it, Model) and hasattr(it, "m_comprehension"):
            return it.m_comprehension(self, e, g, env)
        seq = self.as_seq(it)
        if seq.tail is not None:
            if seq.items:
                raise Unsupported("comprehension over prefix+symbolic tail")
            return self.lift_comprehension(e, g, [seq.tail], env)
        out = []
        cenv = Env(env)    # one scope for the whole comprehension (late-binding closures, as in Python)
        cenv.is_comprehension = True
        for x in seq.items:
            self.assign(g.target, x, cenv)
            if all(self.truth(self.eval(c, cenv)) for c in g.ifs):
                out.append(self.eval(e.elt, cenv))
        return STup(out, None, True)

    def _nested_comprehension(self, e, env, depth, cenv):
        if depth == len(e.generators):
            return STup([self.eval(e.elt, cenv)], None, True)
        g = e.generators[depth]
        seq = self.as_seq(self.eval(g.iter, cenv))
        if seq.tail is not None:
            raise Unsupported("nested comprehension over symbolic length")
        out = []
        if depth == 0:
            cenv = Env(cenv)    # one scope for all generators of the comprehension (Python semantics)
            cenv.is_comprehension = True
        for x in seq.items:
            self.assign(g.target, x, cenv)
            if all(self.truth(self.eval(c, cenv)) for c in g.ifs):
                out += self._nested_comprehension(e, env, depth + 1, cenv).items
        return STup(out, None, True)

    def lift_comprehension(self, e, g, vecs, env):
        """Pointwise lifting of `(f(x..) for x.. in zip(vecs))` over symbolic-length int vectors."""
        if g.ifs:
            raise Unsupported("filtered comprehension over symbolic-length vector")
        n = vecs[0].n
        for v in vecs[1:]:
            if not self.valid(v.n == n):
                raise Unsupported("zip of vectors of possibly different symbolic length")
        k = KAPPA
        cenv = Env(env)
        cenv.is_comprehension = True
        elems = [SI(v.at(k)) for v in vecs]
        if len(vecs) == 1 and not isinstance(g.target, (ast.Tuple, ast.List)):
            self.assign(g.target, elems[0], cenv)
        else:
            self.assign(g.target, STup(elems), cenv)
        ndec = len(self.decisions)
        val = self.eval(e.elt, cenv)
        if len(self.decisions) != ndec:
            raise Unsupported("element expression of a lifted comprehension forks")
        if isinstance(val, (SI, int)) and not isinstance(val, bool):
            ve = zi(val)
            return STup([], self.new_vec(lambda kk: z3.substitute(ve, (KAPPA, kk)), n), True)
        if isinstance(val, Model) and hasattr(val, "lift"):
            return val.lift(self, KAPPA, n)
        raise Unsupported(f"cannot lift comprehension element {val!r}")


class SSlice:
    def __init__(self, lo, hi, step):
        self.lo, self.hi, self.step = lo, hi, step

    def __repr__(self):
        return f"SSlice({self.lo},{self.hi},{self.step})"


class StarTail:
    """A *args element whose length is symbolic."""

    def __init__(self, seq):
        self.seq = seq


def pack_star(extra):
    items = []
    tail = None
    for x in extra:
        if isinstance(x, StarTail):
            items += x.seq.items
            tail = x.seq.tail
        else:
            if tail is not None:
                raise Unsupported("positional argument after symbolic-length *args")
            items.append(x)
    return STup(items, tail)


def zb_of(v):
    if isinstance(v, bool):
        return z3.BoolVal(v)
    return zb(v)


_VEC = z3.ArraySort(z3.IntSort(), z3.IntSort())
_lexgt = z3.Function("lexgt", _VEC, _VEC, z3.IntSort(), z3.BoolSort())


_veq = z3.Function("veq", _VEC, _VEC, z3.IntSort(), z3.BoolSort())


def vec_eq(a: SVec, b: SVec):
    """Equality of two equal-length integer tuples.  Same vector object => True; otherwise an
    uninterpreted predicate (vectors are hash-consed on their definitions, so code and spec
    refer to the same term)."""
    if a.arr.get_id() == b.arr.get_id():
        return z3.BoolVal(True)
    return _veq(a.arr, b.arr, a.n)


def vec_lexgt(a: SVec, b: SVec):
    """Python tuple comparison a > b for equal-length integer tuples (lexicographic); kept
    uninterpreted here, its definition is used by the Lean side (finite-sum lemma)."""
    if a.arr.get_id() == b.arr.get_id():
        return z3.BoolVal(False)
    return _lexgt(a.arr, b.arr, a.n)


KAPPA = z3.Int("kappa!pos")


def _mentions(e, v):
    if e.get_id() == v.get_id():
        return True
    return any(_mentions(c, v) for c in e.children())


def _load(t):
    t2 = ast.copy_location(type(t)(**{f: getattr(t, f) for f in t._fields}), t)
    t2.ctx = ast.Load()
    return t2


def _concrete_binop(op, l, r):
    if isinstance(op, ast.Add):
        return l + r
    if isinstance(op, ast.Sub):
        return l - r
    if isinstance(op, ast.Mult):
        return l * r
    if isinstance(op, ast.FloorDiv):
        if r == 0:
            raise PyRaise(SExc("ZeroDivisionError", ()))
        return l // r
    if isinstance(op, ast.Mod):
        if r == 0:
            raise PyRaise(SExc("ZeroDivisionError", ()))
        return l % r
    if isinstance(op, ast.Pow):
        return l ** r
    if isinstance(op, ast.Div):
        if r == 0:
            raise PyRaise(SExc("ZeroDivisionError", ()))
        if isinstance(l, int) and isinstance(r, int):
            return Fraction(l, r)
        return l / r
    if isinstance(op, ast.BitAnd):
        return l & r
    if isinstance(op, ast.BitOr):
        return l | r
    raise Unsupported(f"concrete binary {type(op).__name__}")


def _concrete_cmp(op, l, r):
    if isinstance(op, ast.Lt):
        return l < r
    if isinstance(op, ast.LtE):
        return l <= r
    if isinstance(op, ast.Gt):
        return l > r
    if isinstance(op, ast.GtE):
        return l >= r
    raise Unsupported(type(op).__name__)


def _has_uf_or_quant(e):
    if z3.is_quantifier(e):
        return True
    if z3.is_app(e):
        if e.num_args() > 0 and e.decl().kind() == z3.Z3_OP_UNINTERPRETED:
            return True
        return any(_has_uf_or_quant(c) for c in e.children())
    return False


def _model_dict(m):
    out = {}
    try:
        for d in m.decls():
            if d.arity() == 0:
                out[d.name()] = str(m[d])
    except Exception:  # pragma: no cover
        pass
    return out


def _all_atoms(x: NF):
    out = set()
    for a in x.atoms():
        out.add(a)
        _nested_atoms(a.key, out)
    return out


def _nested_atoms(key, out):
    if isinstance(key, tuple):
        if key and key[0] == "nf":
            for w, _c in key[1]:
                for a in w:
                    out.add(a)
                    _nested_atoms(a.key, out)
        else:
            for k in key:
                _nested_atoms(k, out)


def _zk_leaves(key):
    if isinstance(key, ZK):
        yield key
    elif isinstance(key, tuple):
        if key and key[0] == "nf":
            for w, _c in key[1]:
                for a in w:
                    yield from _zk_leaves(a.key)
        else:
            for k in key:
                yield from _zk_leaves(k)


def _thaw(fr):
    return NF({w: c for w, c in fr})


def _deep_subst(x: NF, mapping):
    def on_atom(a):
        if a in mapping:
            return mapping[a]
        if a.dagger() in mapping:
            return mapping[a.dagger()].dagger()
        newkey = _subst_key(a.key, mapping)
        return NF({(Atom(newkey, a.dag),): Fraction(1)})

    return x.map_atoms(on_atom)


def _subst_key(key, mapping):
    if isinstance(key, tuple):
        if key and key[0] == "nf":
            return ("nf", _deep_subst(_thaw(key[1]), mapping).frozen())
        return tuple(_subst_key(k, mapping) for k in key)
    return key


def _deep_rekey(x: NF, ren):
    def on_atom(a):
        return NF({(Atom(_rekey(a.key, ren), a.dag),): Fraction(1)})

    return x.map_atoms(on_atom)


def _rekey(key, ren):
    if isinstance(key, ZK):
        return ren.get(key, key)
    if isinstance(key, tuple):
        if key and key[0] == "nf":
            return ("nf", _deep_rekey(_thaw(key[1]), ren).frozen())
        return tuple(_rekey(k, ren) for k in key)
    return key
