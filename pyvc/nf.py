"""Normal forms in the free *-algebra over Q (values of series elements).

A value is a finite Q-linear combination of words of atoms.  Atoms are opaque generators
(series elements, results of scope functions applied to values, accumulators) possibly
under a dagger.  Equality of normal forms is equality in *every* unital *-ring in which the
atoms are interpreted (the free *-algebra is the initial such structure), so "NF(code) ==
NF(spec)" is a sound and complete decision of ring identities; it assumes only that the
run-time operations + - @ scalar-multiplication Dagger are ring operations (assumption A-NP1).

Atoms:  Atom(key, dag) where key is a hashable tuple.  Keys may contain z3 integer
expressions wrapped in `ZK` (hash by z3 ast id after simplify, compare structurally);
semantic equality of differing integer arguments is resolved by the caller through
`unify` with a validity oracle.
"""
from __future__ import annotations

from fractions import Fraction

import z3


class ZK:
    """Hashable wrapper of a z3 expression (structural identity after simplify)."""

    __slots__ = ("e", "_id")

    def __init__(self, e):
        if isinstance(e, ZK):
            e = e.e
        if isinstance(e, bool):
            e = z3.BoolVal(e)
        elif isinstance(e, int):
            e = z3.IntVal(e)
        self.e = z3.simplify(e)
        self._id = self.e.get_id()

    def __hash__(self):
        return hash(self._id)

    def __eq__(self, other):
        return isinstance(other, ZK) and self._id == other._id

    def __repr__(self):
        return str(self.e)


def _freeze(x):
    if isinstance(x, NF):
        return ("nf", x.frozen())
    if isinstance(x, (list, tuple)):
        return tuple(_freeze(i) for i in x)
    if isinstance(x, z3.ExprRef):
        return ZK(x)
    return x


class Atom:
    __slots__ = ("key", "dag", "_h")

    def __init__(self, key, dag=False):
        self.key = _freeze(key)
        self.dag = bool(dag)
        self._h = hash((self.key, self.dag))

    def __hash__(self):
        return self._h

    def __eq__(self, other):
        return isinstance(other, Atom) and self.dag == other.dag and self.key == other.key

    def dagger(self):
        return Atom(self.key, not self.dag)

    def __repr__(self):
        return f"{_show_key(self.key)}{'^+' if self.dag else ''}"


def _show_key(k):
    if isinstance(k, tuple):
        if k and k[0] == "nf":
            return "(" + _show_frozen(k[1]) + ")"
        return "<" + ",".join(_show_key(i) for i in k) + ">"
    return str(k)


def _show_frozen(fr):
    parts = []
    for word, c in sorted(fr, key=lambda t: repr(t)):
        w = "*".join(repr(a) for a in word) or "1"
        parts.append(f"{c}*{w}" if c != 1 else w)
    return " + ".join(parts) or "0"


class NF:
    """Element of the free *-algebra: {word(tuple of Atom): Fraction}."""

    __slots__ = ("t",)

    def __init__(self, terms=None):
        self.t = {}
        if terms:
            for w, c in terms.items():
                c = Fraction(c)
                if c:
                    self.t[w] = c

    # constructors
    @staticmethod
    def zero():
        return NF()

    @staticmethod
    def one():
        return NF({(): Fraction(1)})

    @staticmethod
    def atom(key, dag=False):
        return NF({(Atom(key, dag),): Fraction(1)})

    def frozen(self):
        return frozenset(self.t.items())

    def is_zero(self):
        return not self.t

    def __add__(self, o):
        r = dict(self.t)
        for w, c in o.t.items():
            v = r.get(w, 0) + c
            if v:
                r[w] = v
            else:
                r.pop(w, None)
        return NF(r)

    def __neg__(self):
        return NF({w: -c for w, c in self.t.items()})

    def __sub__(self, o):
        return self + (-o)

    def scale(self, q):
        q = Fraction(q)
        return NF({w: c * q for w, c in self.t.items()})

    def __mul__(self, o):
        r = {}
        for w1, c1 in self.t.items():
            for w2, c2 in o.t.items():
                w = w1 + w2
                v = r.get(w, 0) + c1 * c2
                if v:
                    r[w] = v
                else:
                    r.pop(w, None)
        return NF(r)

    def dagger(self):
        return NF({tuple(a.dagger() for a in reversed(w)): c for w, c in self.t.items()})

    def atoms(self):
        s = set()
        for w in self.t:
            s.update(w)
        return s

    def subst(self, mapping):
        """Replace atoms (by exact key+dag, and their daggers) with NFs."""
        full = {}
        for a, v in mapping.items():
            full[a] = v
            full[a.dagger()] = v.dagger()
        out = NF()
        for w, c in self.t.items():
            acc = NF({(): c})
            for a in w:
                acc = acc * (full[a] if a in full else NF({(a,): Fraction(1)}))
            out = out + acc
        return out

    def map_atoms(self, fn):
        """Rebuild with every atom passed through fn(atom) -> NF."""
        out = NF()
        for w, c in self.t.items():
            acc = NF({(): c})
            for a in w:
                acc = acc * fn(a)
            out = out + acc
        return out

    def __eq__(self, o):
        return isinstance(o, NF) and self.t == o.t

    def __hash__(self):
        return hash(self.frozen())

    def __repr__(self):
        return _show_frozen(self.frozen())


def fn_atom(name, arg: NF, *extra, dag=False):
    """Opaque unary function symbol applied to a normal form (plus extra hashable args)."""
    return NF.atom(("fn", name, arg, tuple(extra)), dag)


def keys_with_z3(key):
    """Yield the ZK leaves of a frozen key."""
    if isinstance(key, ZK):
        yield key
    elif isinstance(key, tuple):
        for k in key:
            yield from keys_with_z3(k)


def unify_keys(k1, k2):
    """Structural comparison returning the list of (z3 e1, z3 e2) pairs that must be equal,
    or None if the keys differ in a non-z3 position."""
    if isinstance(k1, ZK) and isinstance(k2, ZK):
        return [] if k1 == k2 else [(k1.e, k2.e)]
    if isinstance(k1, ZK) or isinstance(k2, ZK):
        return None
    if isinstance(k1, tuple) and isinstance(k2, tuple):
        if len(k1) != len(k2):
            return None
        if k1 and k1[0] == "nf" and k2 and k2[0] == "nf":
            return [] if k1[1] == k2[1] else None  # nested NFs must agree exactly
        out = []
        for a, b in zip(k1, k2):
            r = unify_keys(a, b)
            if r is None:
                return None
            out += r
        return out
    return [] if k1 == k2 else None
