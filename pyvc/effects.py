"""Frame / effect analysis (C10): every store site in the functions under contract must write to
an object allocated in the same activation, to the object's own cache/state (reviewed list),
or it is reported.  Purely syntactic and flow-sensitive only along straight-line code; it is
conservative (unknown => 'shared').

A store site is:  x[...] = v,  x.attr = v,  x op= v,  x.<mutator>(...)  with mutator in MUTATORS,
or a keyword overwrite_* = True / copy = False in a call.
Classification of the base name x at the site:
  fresh-local : x is a local whose nearest preceding binding (walking up the enclosing statement
                lists) is an allocation (literal, comprehension, constructor call, arithmetic result,
                .copy()/copy()), or a rebinding `x op= ...` of a scalar/immutable;
  own         : self.<attr> in __init__/__new__, or an entry of REVIEWED;
  shared      : anything else  -> obligation fails.
"""
from __future__ import annotations

import ast

from . import frontend

MUTATORS = {"append", "extend", "insert", "pop", "remove", "clear", "add", "update", "discard", "sort", "reverse",
            "fill", "resize", "setdefault", "popitem", "put", "itemset", "setflags", "setdiag", "eliminate_zeros",
            "sum_duplicates", "sort_indices", "set_matrix"}

ALLOC_CALLS = {"dict", "list", "set", "tuple", "defaultdict", "Counter", "zeros", "empty", "ones", "array", "eye", "identity",
               "zeros_like", "concatenate", "hstack", "vstack", "column_stack", "copy", "deepcopy", "csr_array", "coo_array",
               "csc_matrix", "Matrix", "BlockSeries", "tocoo", "tocsr", "toarray", "astype", "reshape_copy", "sorted", "where",
               "cauchy_dot_product", "compress", "arange", "linspace", "Tuple", "MUMPSContext", "kpm_vectors", "jackson_kernel",
               "min", "max", "len", "int", "float", "abs"}     # the last row: builtins returning immutable numbers


FORMAT_CONVERSIONS = {"tocoo", "tocsr", "tocsc", "asformat", "asfptype", "asarray", "asanyarray", "ravel", "reshape", "squeeze", "view"}


def _is_alloc(e):
    if isinstance(e, (ast.Dict, ast.List, ast.Set, ast.ListComp, ast.DictComp, ast.SetComp, ast.Constant, ast.JoinedStr, ast.Tuple)):
        return True
    if isinstance(e, (ast.BinOp, ast.UnaryOp, ast.Compare, ast.BoolOp)):
        # arithmetic allocates a new object for arrays / matrices; `or` may alias its operands
        if isinstance(e, ast.BoolOp):
            return all(_is_alloc(v) for v in e.values)
        return True
    if isinstance(e, ast.IfExp):
        return _is_alloc(e.body) and _is_alloc(e.orelse)
    if isinstance(e, ast.Call):
        f = e.func
        name = f.id if isinstance(f, ast.Name) else (f.attr if isinstance(f, ast.Attribute) else None)
        if name in ALLOC_CALLS:
            # tocoo(copy=False) and friends alias their receiver
            for kw in e.keywords:
                if kw.arg == "copy" and isinstance(kw.value, ast.Constant) and kw.value.value is False:
                    return False
            if name in FORMAT_CONVERSIONS:
                # scipy's format conversions return the receiver itself when it already has that format, unless copy=True is passed
                return any(kw.arg == "copy" and isinstance(kw.value, ast.Constant) and kw.value.value is True for kw in e.keywords)
            return True
    return False


class Site:
    def __init__(self, func, node, kind, base, text):
        self.func, self.node, self.kind, self.base, self.text = func, node, kind, base, text
        self.cls = None

    def key(self):
        return f"{self.func}::{self.text}"


def _base_name(t):
    while isinstance(t, (ast.Subscript, ast.Attribute)):
        if isinstance(t, ast.Attribute) and isinstance(t.value, ast.Name) and t.value.id == "self":
            return "self." + t.attr
        t = t.value
    if isinstance(t, ast.Name):
        return t.id
    return None


def _src(node):
    try:
        return " ".join(ast.unparse(node).split())[:160]
    except Exception:  # pragma: no cover
        return type(node).__name__


def _sites_in_function(fn, qual):
    """Store sites directly inside fn (not inside nested function definitions)."""
    sites = []
    parents = {}
    outer_names = set()      # names declared nonlocal / global here: rebinding them is state that outlives the activation

    def own_nodes(n):
        yield n
        for ch in ast.iter_child_nodes(n):
            if isinstance(ch, (ast.FunctionDef, ast.AsyncFunctionDef, ast.ClassDef, ast.Lambda)):
                continue
            yield from own_nodes(ch)

    for st0 in fn.body:
        if isinstance(st0, (ast.FunctionDef, ast.AsyncFunctionDef, ast.ClassDef)):
            continue
        for n in own_nodes(st0):
            if isinstance(n, (ast.Nonlocal, ast.Global)):
                outer_names.update(n.names)

    def walk(body, chain):
        for idx, st in enumerate(body):
            parents[id(st)] = (body, idx, chain)
            if isinstance(st, (ast.FunctionDef, ast.AsyncFunctionDef, ast.ClassDef)):
                continue
            if outer_names:
                for sub in [st] if not hasattr(st, "body") else list(_stmt_exprs(st)):
                    for n in own_nodes(sub):
                        if isinstance(n, ast.Name) and isinstance(n.ctx, (ast.Store, ast.Del)) and n.id in outer_names:
                            sites.append((Site(qual, st, "outer-scope-rebind", "<outer>" + n.id, _src(st)), st))
            for sub in _stmt_exprs(st):
                for n in ast.walk(sub):
                    if isinstance(n, (ast.Lambda,)):
                        continue
                    if isinstance(n, ast.Call):
                        if isinstance(n.func, ast.Attribute) and n.func.attr in MUTATORS:
                            sites.append((Site(qual, n, "call:" + n.func.attr, _base_name(n.func.value), _src(n)), st))
                        for kw in n.keywords:
                            if kw.arg and (kw.arg.startswith("overwrite") and isinstance(kw.value, ast.Constant) and kw.value.value is True):
                                sites.append((Site(qual, n, "kw:" + kw.arg, None, _src(n)), st))
            if isinstance(st, ast.Assign):
                for t in st.targets:
                    for tt in (t.elts if isinstance(t, (ast.Tuple, ast.List)) else [t]):
                        if isinstance(tt, (ast.Subscript, ast.Attribute)):
                            sites.append((Site(qual, st, "store", _base_name(tt), _src(st)), st))
            elif isinstance(st, ast.AugAssign):
                sites.append((Site(qual, st, "augassign", _base_name(st.target), _src(st)), st))
            for fld in ("body", "orelse", "finalbody"):
                sub = getattr(st, fld, None)
                if isinstance(sub, list) and sub and isinstance(sub[0], ast.stmt):
                    walk(sub, chain + [(body, idx)])
            if isinstance(st, ast.Try):
                for h in st.handlers:
                    walk(h.body, chain + [(body, idx)])

    walk(fn.body, [])
    return sites, parents


def _stmt_exprs(st):
    """Expression children of a statement that are evaluated by the statement itself."""
    for fld, val in ast.iter_fields(st):
        if fld in ("body", "orelse", "finalbody", "handlers"):
            continue
        if isinstance(val, ast.AST):
            yield val
        elif isinstance(val, list):
            for v in val:
                if isinstance(v, ast.AST):
                    yield v


def _nearest_binding(name, st, parents, fn):
    """Walk backwards through the enclosing statement lists to the nearest binding of `name`."""
    body, idx, chain = parents[id(st)]
    levels = [(body, idx)] + list(reversed(chain))
    for b, i in levels:
        for prev in reversed(b[:i]):
            r = _binds(prev, name)
            if r is not None:
                return r
    params = [a.arg for a in fn.args.posonlyargs + fn.args.args + fn.args.kwonlyargs]
    if fn.args.vararg:
        params.append(fn.args.vararg.arg)
    if fn.args.kwarg:
        params.append(fn.args.kwarg.arg)
    if name in params:
        return "param"
    return "outer"


def _binds(st, name):
    if isinstance(st, ast.Assign):
        for t in st.targets:
            names = [n.id for n in ast.walk(t) if isinstance(n, ast.Name) and isinstance(n.ctx, ast.Store)]
            if name in names:
                if isinstance(t, ast.Name):
                    return "alloc" if _is_alloc(st.value) else "alias"
                return "alias"
    if isinstance(st, ast.AnnAssign) and isinstance(st.target, ast.Name) and st.target.id == name and st.value is not None:
        return "alloc" if _is_alloc(st.value) else "alias"
    if isinstance(st, ast.AugAssign) and isinstance(st.target, ast.Name) and st.target.id == name:
        return None
    if isinstance(st, (ast.For,)):
        names = [n.id for n in ast.walk(st.target) if isinstance(n, ast.Name)]
        if name in names:
            return "alias"
    if isinstance(st, (ast.If, ast.For, ast.While, ast.With, ast.Try)):
        # a binding inside a compound statement that precedes the site: conservative
        for n in ast.walk(st):
            if isinstance(n, ast.Name) and isinstance(n.ctx, ast.Store) and n.id == name:
                inner = [s for s in ast.walk(st) if isinstance(s, ast.Assign) and any(isinstance(t, ast.Name) and t.id == name for t in s.targets)]
                if inner and all(_is_alloc(s.value) for s in inner):
                    return "alloc"
                return "alias"
    return None


def analyse(module, qualpaths, reviewed):
    """Return list of (Site, classification, justification)."""
    out = []
    tree, _ = frontend.module_ast(module)
    for qp in qualpaths:
        fn = frontend.find(module, qp)
        todo = [(fn, qp)]
        while todo:
            f, q = todo.pop()
            if isinstance(f, ast.ClassDef):
                for ch in f.body:
                    if isinstance(ch, (ast.FunctionDef, ast.ClassDef)):
                        todo.append((ch, f"{q}.{ch.name}"))
                continue
            counts = {}
            for ch in ast.walk(f):
                if ch is not f and isinstance(ch, ast.FunctionDef) and _direct_child_fn(f, ch):
                    k = counts.get(ch.name, 0)
                    counts[ch.name] = k + 1
                    todo.append((ch, f"{q}/{ch.name}#{k}"))
            sites, parents = _sites_in_function(f, f"{module}:{q}")
            for site, st in sites:
                cls, why = _classify(site, st, parents, f, reviewed)
                site.cls = cls
                out.append((site, cls, why))
    return out


def _direct_child_fn(f, ch):
    """ch is a FunctionDef nested in f with no other FunctionDef in between."""
    stack = list(ast.iter_child_nodes(f))
    while stack:
        n = stack.pop()
        if n is ch:
            return True
        if isinstance(n, (ast.FunctionDef, ast.Lambda, ast.ClassDef)):
            continue
        stack.extend(ast.iter_child_nodes(n))
    return False


def _classify(site, st, parents, fn, reviewed):
    for pat, why in reviewed.items():
        fpat, _, tpat = pat.partition("::")
        if site.func.endswith(fpat) and tpat in site.text:
            return "reviewed", why
    base = site.base
    if base is None:
        return "shared", "cannot determine the object written to"
    if base.startswith("<outer>"):
        return "shared", f"rebinds the variable {base[7:]} of an enclosing scope (nonlocal / global): state that persists across calls"
    if base.startswith("self."):
        if fn.name in ("__init__", "__new__"):
            return "own", "initialisation of the object's own attribute"
        return "shared", f"store into {base}"
    if site.kind == "augassign" and isinstance(st.target, ast.Name):
        b = _nearest_binding(base, st, parents, fn)
        if b == "alloc":
            return "fresh-local", "in-place update of a value allocated in this activation"
        return "shared", f"in-place update of `{base}` whose nearest binding is {b}"
    b = _nearest_binding(base, st, parents, fn)
    if b == "alloc":
        return "fresh-local", "target allocated in this activation"
    return "shared", f"target `{base}` bound by {b}"
