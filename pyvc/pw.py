"""Pointwise model of element-wise numpy / scipy.sparse / sympy-matrix code (assumption table A-NP2).

An array is (shape, element function).  Element-wise operators, broadcasting of an (n,1) column
against an (m,) row, np.where, np.abs, comparisons, astype, fancy indexing by COO row/col arrays,
`multiply`, `multiply_elementwise`, `csr_array((data,(row,col)))` are interpreted pointwise; a
postcondition is proved for fresh symbolic indices, hence for all shapes.  Numbers are complex
numbers represented by two z3 Reals (machine arithmetic treated as exact: A-FP).
Each model function is an assumed contract of the library; its id is recorded in eng.used_models.
"""
from __future__ import annotations

import ast
from fractions import Fraction

import z3

from .core import (
    Model, Builtin, Namespace, TypeObj, STup, SI, SB, SExc, PyRaise, Unsupported, wrap_bool, wrap_int, zi, zb,
)

R0 = z3.RealVal(0)
R1 = z3.RealVal(1)


class Cx:
    """Complex number (re, im) over z3 Reals.  Division uses z3's real division; every division
    site of the code under contract carries its own 'denominator != 0' obligation where required."""

    __slots__ = ("re", "im")

    def __init__(self, re, im=R0):
        self.re = re if isinstance(re, z3.ExprRef) else z3.RealVal(str(re))
        self.im = im if isinstance(im, z3.ExprRef) else z3.RealVal(str(im))
        if self.re.sort() == z3.IntSort():
            self.re = z3.ToReal(self.re)
        if self.im.sort() == z3.IntSort():
            self.im = z3.ToReal(self.im)

    @staticmethod
    def of(v):
        if isinstance(v, Cx):
            return v
        if isinstance(v, bool):
            return Cx(z3.RealVal(int(v)))
        if isinstance(v, (int, Fraction)):
            return Cx(z3.RealVal(str(v)))
        if isinstance(v, float):
            return Cx(z3.RealVal(repr(v)))
        if isinstance(v, SI):
            return Cx(z3.ToReal(v.e) if v.e.sort() == z3.IntSort() else v.e)
        if isinstance(v, SReal):
            return Cx(v.e)
        if isinstance(v, z3.ArithRef):
            return Cx(z3.ToReal(v) if v.sort() == z3.IntSort() else v)
        if isinstance(v, z3.BoolRef):
            return Cx(z3.If(v, R1, R0))
        if isinstance(v, SB):
            return Cx(z3.If(v.e, R1, R0))
        raise Unsupported(f"not a number: {v!r}")

    def __add__(self, o):
        o = Cx.of(o)
        return Cx(self.re + o.re, self.im + o.im)

    def __sub__(self, o):
        o = Cx.of(o)
        return Cx(self.re - o.re, self.im - o.im)

    def __neg__(self):
        return Cx(-self.re, -self.im)

    def __mul__(self, o):
        o = Cx.of(o)
        return Cx(self.re * o.re - self.im * o.im, self.re * o.im + self.im * o.re)

    def conj(self):
        return Cx(self.re, -self.im)

    def inv(self):
        d = self.re * self.re + self.im * self.im
        return Cx(self.re / d, -self.im / d)

    def __truediv__(self, o):
        return self * Cx.of(o).inv()

    def eq(self, o):
        o = Cx.of(o)
        return z3.And(self.re == o.re, self.im == o.im)

    def is_zero(self):
        return z3.And(self.re == 0, self.im == 0)

    def abs2(self):
        return self.re * self.re + self.im * self.im

    def __repr__(self):
        return f"Cx({z3.simplify(self.re)}, {z3.simplify(self.im)})"


def cx_if(c, a, b):
    a, b = Cx.of(a), Cx.of(b)
    return Cx(z3.If(c, a.re, b.re), z3.If(c, a.im, b.im))


class SReal(Model):
    """A real scalar parameter (e.g. atol) usable in comparisons with arrays."""

    def __init__(self, e):
        self.e = e

    def m_is(self, eng, other):
        return other is self

    def m_truth(self, eng):
        return eng.branch(self.e != 0)

    def m_binop(self, eng, op, other, reflected):
        return NotImplemented


class AbsVal:
    """|z| (kept symbolic: only comparisons with a real threshold are supported)."""

    def __init__(self, z):
        self.z = Cx.of(z)

    def cmp(self, op, t):
        t = Cx.of(t).re
        a2 = self.z.abs2()
        if isinstance(op, ast.Gt):
            return z3.Or(t < 0, a2 > t * t)
        if isinstance(op, ast.GtE):
            return z3.Or(t <= 0, a2 >= t * t)
        if isinstance(op, ast.Lt):
            return z3.And(t > 0, a2 < t * t)
        if isinstance(op, ast.LtE):
            return z3.And(t >= 0, a2 <= t * t)
        raise Unsupported("comparison of |z|")


def _dim_is_one(d):
    return isinstance(d, int) and d == 1


class PArr(Model):
    """Dense ndarray: shape (list of int | z3 Int) and element function idx(list of z3 Int) -> value.
    kind: 'num' (Cx), 'bool' (z3 Bool), 'int' (z3 Int), 'abs' (AbsVal)."""

    def __init__(self, shape, elem, kind="num", is_object=False, label="array", coo=None):
        self.shape = list(shape)
        self.elem = elem
        self.kind = kind
        self.is_object = is_object
        self.label = label
        self.coo = coo   # set for 1-D arrays indexed by the stored-entry number of a COO matrix

    def __repr__(self):
        return f"PArr({self.label}, shape={self.shape}, {self.kind})"

    # -- helpers ----------------------------------------------------------------------
    def at(self, idx):
        return self.elem(list(idx))

    def m_isinstance(self, eng, clsname):
        if clsname in ("ndarray", "np.ndarray"):
            return True
        if clsname in ("MatrixBase", "BlockSeries", "tuple", "list", "dict", "Expr"):
            return False
        raise Unsupported(f"isinstance(ndarray, {clsname})")

    def m_getattr(self, eng, name):
        if name == "shape":
            return STup([d if isinstance(d, int) else SI(d) for d in self.shape])
        if name == "T":
            if len(self.shape) != 2:
                raise Unsupported(".T of non-matrix")
            return PArr([self.shape[1], self.shape[0]], lambda i: self.elem([i[1], i[0]]), self.kind, self.is_object, self.label + ".T")
        if name == "reshape":
            return Builtin("ndarray.reshape", lambda e, *a: self.reshape(e, a))
        if name == "conj" or name == "conjugate":
            return Builtin("ndarray.conj", lambda e: self.map(lambda v: Cx.of(v).conj(), "num"))
        if name == "astype":
            return Builtin("ndarray.astype", lambda e, t: self.astype(e, t))
        if name == "any":
            return Builtin("ndarray.any", lambda e: np_any(e, self))
        if name == "all":
            return Builtin("ndarray.all", lambda e: np_all(e, self))
        if name == "dtype":
            return DType(self.is_object)
        if name == "diagonal":
            raise Unsupported("ndarray.diagonal")
        raise Unsupported(f"ndarray.{name}")

    def reshape(self, eng, args):
        eng.used_models.add("A-NP2:reshape(-1,1)/(1,-1) of a vector")
        if len(args) == 1 and isinstance(args[0], STup):
            args = args[0].items
        args = list(args)
        if len(self.shape) == 1 and args == [-1, 1]:
            return PArr([self.shape[0], 1], lambda i: self.elem([i[0]]), self.kind, self.is_object, self.label + "[:,None]")
        if len(self.shape) == 1 and args == [1, -1]:
            return PArr([1, self.shape[0]], lambda i: self.elem([i[1]]), self.kind, self.is_object, self.label + "[None,:]")
        if len(self.shape) == 0 and args in ([-1, 1], [1, -1]):
            return PArr([1, 1], lambda i: self.elem([]), self.kind, self.is_object, self.label)
        raise Unsupported(f"reshape{tuple(args)} of shape {self.shape}")

    def map(self, f, kind):
        return PArr(self.shape, lambda i: f(self.elem(i)), kind, self.is_object, self.label, coo=self.coo)

    def astype(self, eng, t):
        tn = getattr(t, "name", None)
        if tn == "int":
            if self.kind == "bool":
                return self.map(lambda b: z3.If(b, 1, 0), "int")
            if self.kind == "int":
                return self
        raise Unsupported(f"astype({tn}) of {self.kind} array")

    def m_unop(self, eng, op):
        if isinstance(op, ast.USub):
            return self.map(lambda v: -Cx.of(v), "num")
        if isinstance(op, ast.Invert) and self.kind == "bool":
            return self.map(lambda b: z3.Not(b), "bool")
        raise Unsupported("unary op on ndarray")

    def m_binop(self, eng, op, other, reflected):
        return arr_binop(eng, op, self, other, reflected)

    def m_truth(self, eng):
        raise PyRaise(SExc("ValueError", ("truth value of an array is ambiguous",)))


class DType(Model):
    def __init__(self, is_object):
        self.is_object = is_object

    def m_binop(self, eng, op, other, reflected):
        if isinstance(op, (ast.Eq, ast.NotEq)) and isinstance(other, TypeObj) and other.name == "object":
            r = self.is_object
            if isinstance(r, bool):
                return r if isinstance(op, ast.Eq) else not r
            return wrap_bool(r if isinstance(op, ast.Eq) else z3.Not(r))
        return NotImplemented


def broadcast_shapes(eng, s1, s2, site=""):
    """numpy broadcasting for the shapes that occur here (dims: literal 1 or arbitrary)."""
    n = max(len(s1), len(s2))
    a = [1] * (n - len(s1)) + list(s1)
    b = [1] * (n - len(s2)) + list(s2)
    out, pick1, pick2 = [], [], []
    for d1, d2 in zip(a, b):
        if _dim_is_one(d1) and not _dim_is_one(d2):
            out.append(d2); pick1.append(False); pick2.append(True)
        elif _dim_is_one(d2) and not _dim_is_one(d1):
            out.append(d1); pick1.append(True); pick2.append(False)
        else:
            if not (isinstance(d1, int) and isinstance(d2, int) and d1 == d2):
                e1 = d1 if not isinstance(d1, int) else z3.IntVal(d1)
                e2 = d2 if not isinstance(d2, int) else z3.IntVal(d2)
                if not (e1.get_id() == e2.get_id()):
                    eng.oblige(f"shapes-compatible@{eng.site()}", e1 == e2, detail="operands of an element-wise operation have equal extents")
            out.append(d1); pick1.append(True); pick2.append(True)
    off1, off2 = n - len(s1), n - len(s2)

    def ix1(i):
        return [(i[k] if pick1[k] else z3.IntVal(0)) for k in range(off1, n)]

    def ix2(i):
        return [(i[k] if pick2[k] else z3.IntVal(0)) for k in range(off2, n)]
    return out, ix1, ix2


def scalar_binop(op, a, b):
    """Element-level semantics of a numpy binary operator."""
    if isinstance(op, (ast.Lt, ast.LtE, ast.Gt, ast.GtE)):
        if isinstance(a, AbsVal):
            return a.cmp(op, b), "bool"
        if isinstance(b, AbsVal):
            flip = {ast.Lt: ast.Gt, ast.LtE: ast.GtE, ast.Gt: ast.Lt, ast.GtE: ast.LtE}[type(op)]()
            return b.cmp(flip, a), "bool"
        x, y = Cx.of(a).re, Cx.of(b).re   # ordering of real values
        return {ast.Lt: x < y, ast.LtE: x <= y, ast.Gt: x > y, ast.GtE: x >= y}[type(op)], "bool"
    if isinstance(op, ast.Eq):
        if isinstance(a, z3.BoolRef) and isinstance(b, (bool, z3.BoolRef)):
            return a == b, "bool"
        return Cx.of(a).eq(Cx.of(b)), "bool"
    if isinstance(op, ast.NotEq):
        return z3.Not(Cx.of(a).eq(Cx.of(b))), "bool"
    if isinstance(op, (ast.BitAnd, ast.BitOr)):
        def tb(v):
            if isinstance(v, z3.BoolRef):
                return v
            if isinstance(v, bool):
                return z3.BoolVal(v)
            if isinstance(v, z3.ArithRef):
                return v != 0   # sound for 0/1-valued integer masks (obligation mask-values-are-0-or-1)
            raise Unsupported("bitwise op on non-boolean")
        x, y = tb(a), tb(b)
        return (z3.And(x, y) if isinstance(op, ast.BitAnd) else z3.Or(x, y)), "bool"
    if isinstance(a, z3.ArithRef) and a.sort() == z3.IntSort() and isinstance(b, (int, z3.ArithRef)) and not isinstance(b, bool) and \
            (isinstance(b, int) or b.sort() == z3.IntSort()) and isinstance(op, (ast.Add, ast.Sub, ast.Mult)):
        return {ast.Add: a + b, ast.Sub: a - b, ast.Mult: a * b}[type(op)], "int"
    if isinstance(a, int) and not isinstance(a, bool) and isinstance(b, z3.ArithRef) and b.sort() == z3.IntSort() and isinstance(op, (ast.Add, ast.Sub, ast.Mult)):
        return {ast.Add: a + b, ast.Sub: a - b, ast.Mult: a * b}[type(op)], "int"
    if isinstance(a, int) and not isinstance(a, bool) and isinstance(b, z3.BoolRef) and isinstance(op, ast.Sub):
        return a - z3.If(b, 1, 0), "int"       # 1 - boolean mask
    x, y = Cx.of(a), Cx.of(b)
    if isinstance(op, ast.Add):
        return x + y, "num"
    if isinstance(op, ast.Sub):
        return x - y, "num"
    if isinstance(op, ast.Mult):
        return x * y, "num"
    if isinstance(op, ast.Div):
        return x / y, "num"
    raise Unsupported(f"element-wise {type(op).__name__}")


class PMaskProd(Model):
    """A @ B for non-negative integer masks; only `(A @ B) > 0` is supported (reachability in two steps)."""

    def __init__(self, a, b):
        self.a, self.b = a, b

    def m_binop(self, eng, op, other, reflected):
        if isinstance(op, ast.Gt) and not reflected and isinstance(other, int) and other == 0:
            eng.used_models.add("A-NP2:(A @ B) > 0 for 0/1 masks iff some k has A[a,k] and B[k,c]")
            a, b = self.a, self.b
            kdim = a.shape[1]
            kf = z3.Function(eng.fresh_name("mid"), z3.IntSort(), z3.IntSort(), z3.IntSort())
            out = PArr([a.shape[0], b.shape[1]], None, "bool", False, "(A@B>0)")
            tv = (lambda v: v if isinstance(v, z3.BoolRef) else v != 0)

            def elem(i):
                k = kf(i[0], i[1])
                return z3.And(k >= 0, k < (kdim if not isinstance(kdim, int) else z3.IntVal(kdim)), tv(a.elem([i[0], k])), tv(b.elem([k, i[1]])))
            out.elem = elem
            kd = kdim if not isinstance(kdim, int) else z3.IntVal(kdim)
            out.exists = (kd, lambda i, k: z3.And(k >= 0, k < kd, tv(a.elem([i[0], k])), tv(b.elem([k, i[1]]))))
            return out
        return NotImplemented


def arr_binop(eng, op, arr, other, reflected):
    eng.used_models.add("A-NP2:element-wise operators with broadcasting")
    if isinstance(op, ast.MatMult):
        if isinstance(other, PArr) and not reflected and len(arr.shape) == 2 and len(other.shape) == 2:
            return PMaskProd(arr, other)
        return NotImplemented
    if isinstance(other, PArr):
        l, r = (other, arr) if reflected else (arr, other)
        shape, ix1, ix2 = broadcast_shapes(eng, l.shape, r.shape)
        kind_box = []

        def elem(i):
            v, k = scalar_binop(op, l.elem(ix1(i)), r.elem(ix2(i)))
            return v
        _v, kind = scalar_binop(op, l.elem(ix1([z3.Int("probe!%d" % q) for q in range(len(shape))])), r.elem(ix2([z3.Int("probe!%d" % q) for q in range(len(shape))])))
        coo = l.coo if l.coo is not None else r.coo
        if l.coo is not None and r.coo is not None and l.coo is not r.coo:
            coo = None
        out = PArr(shape, elem, kind, l.is_object or r.is_object, "(%s %s %s)" % (l.label, type(op).__name__, r.label), coo=coo)
        if isinstance(op, ast.BitAnd):
            for x, ixx, y, ixy in ((l, ix1, r, ix2), (r, ix2, l, ix1)):
                ex = getattr(x, "exists", None)
                if ex is not None and getattr(y, "exists", None) is None:
                    def tbv(v):
                        return v if isinstance(v, z3.BoolRef) else v != 0
                    out.exists = (ex[0], (lambda ex, ixx, y, ixy: (lambda i, k: z3.And(ex[1](ixx(i), k), tbv(y.elem(ixy(i))))))(ex, ixx, y, ixy))
        return out
    if isinstance(other, SReal):
        other = Cx(other.e)
    if isinstance(other, (int, float, Fraction, SI, SB, Cx)) or isinstance(other, z3.ExprRef):
        def elem(i):
            a = arr.elem(i)
            v, _k = scalar_binop(op, other, a) if reflected else scalar_binop(op, a, other)
            return v
        probe = arr.elem([z3.Int("probe!%d" % q) for q in range(len(arr.shape))])
        _v, kind = scalar_binop(op, other, probe) if reflected else scalar_binop(op, probe, other)
        return PArr(arr.shape, elem, kind, arr.is_object, arr.label, coo=arr.coo)
    return NotImplemented


# ---- quantifier-free any / all ---------------------------------------------------------

def np_any(eng, arr):
    """np.any over an array: a fresh Boolean b with  (exists witness: arr[w]) <- b  and instances
    arr[idx] -> b added on demand (eng.any_facts)."""
    eng.used_models.add("A-NP2:np.any / np.all")
    if not isinstance(arr, PArr) or arr.kind not in ("bool", "int"):
        raise Unsupported("np.any of this value")
    b = eng.fresh("any", "bool")
    idx = [eng.fresh("w") for _ in arr.shape]
    rng = z3.And(*[z3.And(i >= 0, i < (d if not isinstance(d, int) else z3.IntVal(d))) for i, d in zip(idx, arr.shape)]) if idx else z3.BoolVal(True)
    tv = (lambda v: v if isinstance(v, z3.BoolRef) else v != 0)
    eng.assume(z3.Implies(b, z3.And(rng, tv(arr.elem(idx)))))
    eng.any_facts.append((arr, b, tv))
    return SB(b)


def np_all(eng, arr):
    neg = arr.map(lambda v: z3.Not(v) if isinstance(v, z3.BoolRef) else v == 0, "bool")
    r = np_any(eng, neg)
    return wrap_bool(z3.Not(r.e))


def instantiate_any(eng, idx_lists):
    """Add instances  arr[idx] -> b  for the given index tuples (by arity); for arrays of the form
    `exists k. body(idx, k)` an index tuple with one extra component instantiates the body."""
    for arr, b, tv in eng.any_facts:
        for idx in idx_lists:
            ex = getattr(arr, "exists", None)
            if ex is not None and len(idx) == len(arr.shape) + 1:
                i, k = list(idx[:-1]), idx[-1]
                rng = z3.And(*[z3.And(q >= 0, q < (d if not isinstance(d, int) else z3.IntVal(d))) for q, d in zip(i, arr.shape)])
                eng.assume(z3.Implies(z3.And(rng, ex[1](i, k)), b))
                continue
            if len(idx) == len(arr.shape):
                rng = z3.And(*[z3.And(i >= 0, i < (d if not isinstance(d, int) else z3.IntVal(d))) for i, d in zip(idx, arr.shape)]) if idx else z3.BoolVal(True)
                eng.assume(z3.Implies(z3.And(rng, tv(arr.elem(list(idx)))), b))


# ---- sparse matrices -------------------------------------------------------------------------

class PSparse(Model):
    """scipy.sparse array: stored-entry pattern + values.  Denotation: val at stored positions, 0 elsewhere."""

    def __init__(self, shape, stored, val, label="sparse"):
        self.shape, self.stored, self.val, self.label = list(shape), stored, val, label

    def dense_at(self, idx):
        return cx_if(self.stored(idx), self.val(idx), Cx(R0))

    def m_isinstance(self, eng, clsname):
        if clsname in ("ndarray", "MatrixBase", "BlockSeries", "tuple", "list"):
            return False
        raise Unsupported(f"isinstance(sparse, {clsname})")

    def m_getattr(self, eng, name):
        if name == "shape":
            return STup([d if isinstance(d, int) else SI(d) for d in self.shape])
        if name == "tocoo":
            return Builtin("sparse.tocoo", lambda e, copy=True: PCoo(e, self))
        if name == "multiply":
            def multiply(e, other):
                e.used_models.add("A-NP2:sparse.multiply(dense) is element-wise on the stored entries")
                if isinstance(other, PArr):
                    return PSparse(self.shape, self.stored, lambda i: Cx.of(self.val(i)) * Cx.of(other.elem(i)), f"{self.label}.multiply({other.label})")
                raise Unsupported("sparse.multiply of this operand")
            return Builtin("sparse.multiply", multiply)
        raise Unsupported(f"sparse.{name}")


class PCoo(Model):
    def __init__(self, eng, sp):
        self.sp = sp
        self.nnz = eng.fresh("nnz")
        eng.assume(self.nnz >= 0)
        self.rowf = z3.Function(eng.fresh_name("coo_row"), z3.IntSort(), z3.IntSort())
        self.colf = z3.Function(eng.fresh_name("coo_col"), z3.IntSort(), z3.IntSort())
        eng.used_models.add("A-NP2:tocoo(): row/col/data enumerate the stored entries")

    def pos(self, k):
        return [self.rowf(k), self.colf(k)]

    def m_getattr(self, eng, name):
        if name == "row":
            return PEntryVec(self, lambda k: self.rowf(k), "int", role="row")
        if name == "col":
            return PEntryVec(self, lambda k: self.colf(k), "int", role="col")
        if name == "data":
            return PEntryVec(self, lambda k: self.sp.val(self.pos(k)), "num", role="data")
        if name == "shape":
            return self.sp.m_getattr(eng, "shape")
        raise Unsupported(f"coo.{name}")


class PEntryVec(PArr):
    """1-D array indexed by the stored-entry number of a COO matrix."""

    def __init__(self, coo, f, kind, role=None):
        super().__init__([coo.nnz], lambda i: f(i[0]), kind, False, f"coo.{role}", coo=coo)
        self.role = role


def fancy_index(eng, arr, key):
    """arr[int_vector] for a 1-D array."""
    eng.used_models.add("A-NP2:integer-array indexing of a vector")
    if isinstance(key, PEntryVec) and key.kind == "int" and len(arr.shape) == 1:
        out = PEntryVec(key.coo, lambda k: arr.elem([key.elem([k])]), arr.kind, role=f"{arr.label}[{key.role}]")
        return out
    from .models import STup as _STup
    if isinstance(key, _STup) and len(key.items) == 2 and len(arr.shape) == 2 and all(isinstance(k, PEntryVec) and k.kind == "int" for k in key.items) \
            and key.items[0].coo is key.items[1].coo:
        # arr[row_vector, col_vector] of a matrix: one element per stored entry of the COO matrix the vectors come from
        r, c = key.items
        return PEntryVec(r.coo, lambda k: arr.elem([r.elem([k]), c.elem([k])]), arr.kind, role=f"{arr.label}[{r.role},{c.role}]")
    raise Unsupported("fancy indexing")


PArr.m_getitem = lambda self, eng, key: fancy_index(eng, self, key)


def csr_from_coo(eng, args, shape=None):
    eng.used_models.add("A-NP2:csr_array((data,(row,col)),shape) has entry data[k] at (row[k],col[k])")
    if isinstance(args, STup) and len(args.items) == 2 and isinstance(args.items[1], STup):
        data = args.items[0]
        row, col = args.items[1].items
        if isinstance(data, PArr) and isinstance(row, PEntryVec) and isinstance(col, PEntryVec) and row.role == "row" and col.role == "col" \
                and row.coo is col.coo and data.coo is row.coo and len(data.shape) == 1:
            coo = row.coo
            return PSparseFromCoo(coo, data)
    raise Unsupported("csr_array construction")


class PSparseFromCoo(Model):
    """Result of csr_array((data,(row,col))): same stored pattern as the COO source, new values by entry."""

    def __init__(self, coo, data):
        self.coo, self.data = coo, data
        self.shape = coo.sp.shape


# ---- sympy matrices --------------------------------------------------------------------------

class SymVal:
    """A sympy scalar: complex value or complex infinity (zoo)."""

    def __init__(self, val, zoo=False):
        self.val = Cx.of(val)
        self.zoo = zoo if isinstance(zoo, z3.ExprRef) else z3.BoolVal(bool(zoo))


class PSym(Model):
    """sympy Matrix / object array of sympy scalars: element function -> SymVal."""

    def __init__(self, shape, elem, label="Matrix", is_matrix=True):
        self.shape, self.elem, self.label, self.is_matrix = list(shape), elem, label, is_matrix

    def m_isinstance(self, eng, clsname):
        if clsname == "MatrixBase":
            return self.is_matrix
        if clsname in ("ndarray",):
            return not self.is_matrix
        if clsname in ("BlockSeries", "tuple", "list"):
            return False
        raise Unsupported(f"isinstance(sympy matrix, {clsname})")

    def m_getattr(self, eng, name):
        if name == "shape":
            return STup([d if isinstance(d, int) else SI(d) for d in self.shape])
        if name == "reshape":
            def reshape(e, *a):
                a = list(a)
                if len(self.shape) == 1 and a == [-1, 1]:
                    return PSym([self.shape[0], 1], lambda i: self.elem([i[0]]), self.label, False)
                if len(self.shape) == 1 and a == [1, -1]:
                    return PSym([1, self.shape[0]], lambda i: self.elem([i[1]]), self.label, False)
                if len(self.shape) == 0 and a in ([-1, 1], [1, -1]):
                    return PSym([1, 1], lambda i: self.elem([]), self.label, False)
                raise Unsupported("reshape of sympy object array")
            return Builtin("reshape", reshape)
        if name == "subs":
            def subs(e, old, new):
                e.used_models.add("A-SY3:Matrix.subs(zoo, 0) replaces complex infinity by 0 element-wise")
                if old is ZOO and isinstance(new, (int, Fraction)) and new == 0:
                    return PSym(self.shape, lambda i: (lambda v: SymVal(cx_if(v.zoo, Cx(R0), v.val), False))(self.elem(i)), self.label, self.is_matrix)
                raise Unsupported("Matrix.subs")
            return Builtin("Matrix.subs", subs)
        if name == "multiply_elementwise":
            def me(e, other):
                e.used_models.add("A-SY3:Matrix.multiply_elementwise")
                o = as_sym(other)
                return PSym(self.shape, lambda i: (lambda a, b: SymVal(a.val * b.val, z3.Or(a.zoo, b.zoo)))(self.elem(i), o.elem(i)), "mulelem", True)
            return Builtin("multiply_elementwise", me)
        if name == "dtype":
            return DType(True)
        raise Unsupported(f"sympy matrix .{name}")

    def m_binop(self, eng, op, other, reflected):
        eng.used_models.add("A-SY3:sympy scalar arithmetic, 1/0 = zoo")
        if isinstance(op, ast.Sub) and isinstance(other, PSym):
            l, r = (other, self) if reflected else (self, other)
            shape, ix1, ix2 = broadcast_shapes(eng, l.shape, r.shape)
            return PSym(shape, lambda i: (lambda a, b: SymVal(a.val - b.val, z3.Or(a.zoo, b.zoo)))(l.elem(ix1(i)), r.elem(ix2(i))), "diff", False)
        if isinstance(op, ast.Div) and reflected and isinstance(other, int) and other == 1:
            def inv(v):
                return SymVal(cx_if(v.val.is_zero(), Cx(R0), v.val.inv()), z3.And(z3.Not(v.zoo), v.val.is_zero()))
            return PSym(self.shape, lambda i: inv(self.elem(i)), "1/" + self.label, False)
        return NotImplemented


def as_sym(x):
    if isinstance(x, PSym):
        return x
    raise Unsupported(f"not a sympy matrix: {x!r}")


class _Zoo(Model):
    pass


ZOO = _Zoo()


# ---- numpy namespace --------------------------------------------------------------------------

class Transparent(Model):
    transparent_context = True


def make_np(eng_globals_extra=None):
    def where(eng, cond, a, b):
        eng.used_models.add("A-NP2:np.where(cond, a, b) is element-wise selection")
        if not isinstance(cond, PArr) or cond.kind != "bool":
            raise Unsupported("np.where condition")
        def pick(x, i):
            if isinstance(x, PArr):
                return x.elem(i)
            return x
        return PArr(cond.shape, lambda i: cx_if(cond.elem(i), Cx.of(pick(a, i)), Cx.of(pick(b, i))), "num", False, "where", coo=cond.coo)

    def abs_(eng, x):
        eng.used_models.add("A-NP2:np.abs is the element-wise modulus")
        if isinstance(x, PArr):
            return x.map(lambda v: AbsVal(v), "abs")
        raise Unsupported("np.abs")

    def equal(eng, a, b):
        if isinstance(a, PSym) and isinstance(b, PSym):
            eng.used_models.add("A-SY3:np.equal on object arrays of sympy scalars is structural equality of the values")
            shape, ix1, ix2 = broadcast_shapes(eng, a.shape, b.shape)
            return PArr(shape, lambda i: a.elem(ix1(i)).val.eq(b.elem(ix2(i)).val), "bool", False, "equal")
        return arr_binop(eng, ast.Eq(), a, b, False)

    def isclose(eng, a, b):
        """np.isclose(a, b) with default rtol=1e-5, atol=1e-8:  |a - b| <= atol + rtol * |b| ; modelled by the
        uninterpreted predicate isclose(a,b) constrained by what the proofs need:  a == b  ->  isclose ,
        isclose -> |a-b|^2 <= (1e-8 + 1e-5 |b|)^2 is NOT used; instead not isclose -> |a - b| > 1e-8."""
        eng.used_models.add("A-NP2:np.isclose(a,b) holds if a == b and fails only if |a-b| > 1e-8 (default tolerances)")
        shape, ix1, ix2 = broadcast_shapes(eng, a.shape, b.shape)

        def elem(i):
            x, y = Cx.of(a.elem(ix1(i))), Cx.of(b.elem(ix2(i)))
            c = eng.isclose_fn(x.re, x.im, y.re, y.im)
            return c
        eng.isclose_used = True
        return PArr(shape, elem, "bool", False, "isclose")

    def errstate(eng, **kw):
        return Transparent()

    def resize(eng, arr, shape):
        """np.resize(a, new_shape): the flattened data of `a`, repeated cyclically, in row-major order of the new shape
        (NOT broadcasting).  Modelled for 2-d `a` of shape (r, c) and 2-d target (R, C):
        element (i, j) = a.flat[(i*C + j) mod (r*c)]; only the cases that need no modular arithmetic are decided:
        c == C (rows repeat cyclically; decided when r == R or r == 1) - otherwise Unsupported."""
        eng.used_models.add("A-NP2:np.resize repeats the flattened data cyclically in row-major order")
        shp = [zi(x) for x in eng.as_seq(shape).items]
        if isinstance(arr, (PSym, PArr)) and len(arr.shape) == 2 and len(shp) == 2:
            r, c = (d if not isinstance(d, int) else z3.IntVal(d) for d in arr.shape)
            R, C = shp
            if eng.valid(c == C):
                if eng.valid(r == R):
                    return arr
                if eng.valid(r == 1):
                    return type(arr)([R, C], lambda i: arr.elem([z3.IntVal(0), i[1]]), arr.label, False) if isinstance(arr, PSym) else \
                        PArr([R, C], lambda i: arr.elem([z3.IntVal(0), i[1]]), arr.kind, arr.is_object, arr.label)
            raise Unsupported("np.resize to a shape with a different row length (cyclic tiling is not broadcasting)")
        raise Unsupported("np.resize")

    def broadcast_to(eng, arr, shape):
        eng.used_models.add("A-NP2:np.broadcast_to follows the broadcasting rules")
        shp = [x if isinstance(x, int) else zi(x) for x in eng.as_seq(shape).items]
        if isinstance(arr, (PSym, PArr)):
            out, ix1, _ix2 = broadcast_shapes(eng, arr.shape, shp)
            for d_out, d_t in zip(out, shp):
                e1 = d_out if not isinstance(d_out, int) else z3.IntVal(d_out)
                e2 = d_t if not isinstance(d_t, int) else z3.IntVal(d_t)
                if e1.get_id() != e2.get_id():
                    eng.oblige(f"broadcast_to:shape-compatible@{eng.site()}", e1 == e2)
            if isinstance(arr, PSym):
                return PSym(shp, lambda i: arr.elem(ix1(i)), arr.label, False)
            return PArr(shp, lambda i: arr.elem(ix1(i)), arr.kind, arr.is_object, arr.label)
        raise Unsupported("np.broadcast_to")

    def array(eng, x, dtype=None):
        if isinstance(x, PSym):
            return PSym(x.shape, x.elem, x.label, False)
        if isinstance(x, PArr):
            return x
        raise Unsupported("np.array of this value")

    d = {"where": Builtin("np.where", where), "abs": Builtin("np.abs", abs_), "equal": Builtin("np.equal", equal),
         "isclose": Builtin("np.isclose", isclose), "any": Builtin("np.any", np_any), "all": Builtin("np.all", np_all),
         "errstate": Builtin("np.errstate", errstate), "resize": Builtin("np.resize", resize), "broadcast_to": Builtin("np.broadcast_to", broadcast_to), "array": Builtin("np.array", array),
         "ndarray": TypeObj("ndarray")}
    d.update(eng_globals_extra or {})
    return Namespace("np", d)


def dagger(eng, x):
    """sympy.physics.quantum.Dagger on matrices: conjugate transpose (A-NP1)."""
    eng.used_models.add("A-NP1:Dagger of a matrix is its conjugate transpose")
    from .models import SObj
    if isinstance(x, SObj):
        from .models import dagger_model
        return dagger_model(eng, x)
    if isinstance(x, PArr) and len(x.shape) == 2:
        return PArr([x.shape[1], x.shape[0]], lambda i: Cx.of(x.elem([i[1], i[0]])).conj(), "num", x.is_object, f"Dagger({x.label})")
    if isinstance(x, PSparse):
        return PSparse([x.shape[1], x.shape[0]], lambda i: x.stored([i[1], i[0]]), lambda i: Cx.of(x.val([i[1], i[0]])).conj(), f"Dagger({x.label})")
    if isinstance(x, PSym) and len(x.shape) == 2:
        return PSym([x.shape[1], x.shape[0]], lambda i: (lambda v: SymVal(v.val.conj(), v.zoo))(x.elem([i[1], i[0]])), f"Dagger({x.label})", x.is_matrix)
    raise Unsupported(f"Dagger({x!r})")
