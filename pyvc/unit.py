"""Running one function-under-contract ("unit") and collecting its obligations."""
from __future__ import annotations

import time
import traceback

from . import frontend
from .core import Engine, Unsupported, PyRaise, Closure, Env, Obligation
from .models import base_globals


class UnitResult:
    def __init__(self, name):
        self.name = name
        self.functions = []  # descriptions of real functions whose AST was executed
        self.obligations = []
        self.paths = 0
        self.solver_secs = 0.0
        self.queries = 0
        self.wall = 0.0
        self.engine_error = None
        self.used_models = set()
        self.notes = []
        self.covers = []  # (name, ok)
        self.canaries = []  # (name, refuted?)
        self.bounded = []  # descriptions of bounded parts
        self.pruned = {}

    @property
    def ok(self):
        return self.engine_error is None and all(o.status == "proved" for o in self.obligations) \
            and all(ok for _, ok in self.covers) and all(ok for _, ok in self.canaries)

    def failed(self):
        return [o for o in self.obligations if o.status != "proved"]

    def summary(self):
        by = {}
        for o in self.obligations:
            by[o.status] = by.get(o.status, 0) + 1
        return by


def run_unit(name, harness, functions=(), timeout_ms=10000, globals_extra=None, setup=None, max_paths=4000):
    """harness(eng) executes ONE path of the unit (the engine replays it for every path).
    `functions` = [(module, qualpath)] whose source is under contract here (for evidence)."""
    res = UnitResult(name)
    t0 = time.time()
    try:
        for module, qp in functions:
            res.functions.append(frontend.describe(module, qp))
        eng = Engine(name, timeout_ms=timeout_ms, max_paths=max_paths)
        eng.source_modules = list(dict.fromkeys(m for m, _ in functions))
        eng.globals.update(base_globals())
        if globals_extra:
            eng.globals.update(globals_extra)
        if setup:
            setup(eng)
        eng.run(harness)
        res.obligations = eng.obligations
        res.paths = eng.paths_done
        res.solver_secs = eng.solver_secs
        res.queries = eng.queries
        res.used_models = set(eng.used_models)
        res.pruned = dict(eng.pruned)
    except (Unsupported, frontend.SourceError) as e:
        res.engine_error = f"{type(e).__name__}: {e}"
        res.obligations = getattr(locals().get("eng"), "obligations", [])
    except Exception as e:  # engine crash: never a verdict
        res.engine_error = f"engine crash {type(e).__name__}: {e}\n{traceback.format_exc()[-1500:]}"
        res.obligations = getattr(locals().get("eng"), "obligations", [])
    res.wall = time.time() - t0
    if res.engine_error is None and not res.obligations:
        res.engine_error = "vacuity guard: unit generated zero obligations"
    return res


def closure_from_source(eng, module, qualpath, env_vars=None):
    node = frontend.find(module, qualpath)
    env = Env(None, env_vars or {})
    return Closure(node, env, node.name)
