"""Model objects shared by the contracts: sentinel-aware element values, abstract BlockSeries
(the *callers'* view given by the contract of BlockSeries.__getitem__/__contains__/pop),
Python builtins used by the code under contract.

Every model here is an assumed or separately-verified contract; each has an id that is
recorded in the evidence (`eng.used_models`).
"""
from __future__ import annotations

import ast
from fractions import Fraction

import z3

from .core import (
    SI, SB, STup, SVec, SExc, SStr, SSlice, StarTail, Model, Builtin, TypeObj, Namespace, Closure,
    ExcClass, PyRaise, Unsupported, wrap_int, wrap_bool, zi, zb, zb_of, EXC_PARENTS,
)
from .nf import NF, Atom, ZK

TAG_ZERO, TAG_ONE, TAG_VAL, TAG_PENDING = 0, 1, 2, 3


class SObj(Model):
    """Element value: sentinel tag (z3 Int) + denotation in the free *-algebra.
    Invariant: tag=0 => den = 0 ; tag=1 => den = 1 (kept as path facts for symbolic tags)."""

    def __init__(self, tag, nf: NF, origin=None, alias="fresh"):
        self.tag = tag if isinstance(tag, z3.ExprRef) else z3.IntVal(tag)
        self.nf = nf
        self.origin = origin
        # 'fresh': allocated by an operation in this activation; 'cache': may be an object stored
        # in a series cache / handed to the caller; 'unknown': cannot tell (frame analysis, C10)
        self.alias = alias

    def __repr__(self):
        return f"SObj(tag={self.tag}, {self.nf})"

    def tag_is(self, eng, t):
        return wrap_bool(self.tag == t)

    def m_is(self, eng, other):
        if other is self:
            return True
        if isinstance(other, SObj):
            for const, t in ((ZERO, TAG_ZERO), (ONE, TAG_ONE), (PENDING, TAG_PENDING)):
                if other is const:
                    return wrap_bool(self.tag == t)
                if self is const:
                    return wrap_bool(other.tag == t)
        if other is None or not isinstance(other, SObj):
            return False   # tuples, lists and opaque library terms are never the sentinel / element object itself
        raise Unsupported("identity comparison between two non-sentinel values")

    def m_isinstance(self, eng, clsname):
        # element values are never BlockSeries / tuples / lists
        if clsname in ("BlockSeries", "tuple", "list", "int", "slice"):
            return False
        if self is ZERO or self is ONE or self is PENDING:
            return False    # the sentinel singletons are instances of their own classes only
        if clsname == "ndarray" and getattr(eng, "numeric_probes", False):
            # a regular element value may or may not be a numpy array (sparse, symbolic, LinearOperator values are not); sentinels never are
            if eng.branch(self.tag == TAG_VAL):
                return eng.branch(eng.fresh("element_is_ndarray", "bool"))
            return False
        raise Unsupported(f"isinstance(element value, {clsname})")

    def m_getattr(self, eng, name):
        if name == "dtype" and getattr(eng, "numeric_probes", False):
            from .core import TypeObj
            return TypeObj("dtype-of-element")
        raise Unsupported(f"element value .{name}")

    def m_unop(self, eng, op):
        if isinstance(op, ast.USub):
            if eng.branch(self.tag == TAG_ZERO):
                return self  # Zero.__neg__ returns self
            if eng.branch(self.tag == TAG_VAL):
                return SObj(TAG_VAL, -self.nf)
            raise PyRaise(SExc("TypeError", ("bad operand type for unary -",), tag="sentinel-arith"))
        raise Unsupported(f"unary {type(op).__name__} on element value")

    def m_binop(self, eng, op, other, reflected):
        if isinstance(op, (ast.Add, ast.Sub)):
            if not isinstance(other, SObj):
                raise Unsupported(f"element value +/- {other!r}")
            l, r = (other, self) if reflected else (self, other)
            return _add(eng, l, r, isinstance(op, ast.Sub))
        if isinstance(op, ast.Div):
            if reflected:
                raise Unsupported("x / element value")
            if isinstance(other, (int, Fraction)) and not isinstance(other, bool):
                if eng.branch(self.tag == TAG_VAL):
                    if other == 0:
                        raise PyRaise(SExc("ZeroDivisionError", ()))
                    return SObj(TAG_VAL, self.nf.scale(Fraction(1, other)))
                raise PyRaise(SExc("TypeError", ("unsupported operand type(s) for /",), tag="sentinel-div"))
            raise Unsupported(f"element value / {other!r}")
        if isinstance(op, ast.Mult):
            if isinstance(other, (int, Fraction)) and not isinstance(other, bool):
                if eng.branch(self.tag == TAG_ZERO):
                    if reflected and not _zero_has("__rmul__"):
                        raise PyRaise(SExc("TypeError", ("unsupported operand type(s) for *: 'int' and 'Zero'",)))   # x * zero needs Zero.__rmul__
                    return self  # Zero.__mul__ / __rmul__ return self
                if eng.branch(self.tag == TAG_VAL):
                    return SObj(TAG_VAL, self.nf.scale(other))
                raise PyRaise(SExc("TypeError", ("unsupported operand type(s) for *",), tag="sentinel-arith"))
            raise Unsupported(f"element value * {other!r}")
        return NotImplemented

    def m_truth(self, eng):
        raise Unsupported("truth value of an element value")


_ZERO_MEMBERS = {}


def _zero_has(name):
    """does series.Zero of the tree under check define `name` (as a method or as an alias in a chained assignment)?"""
    from . import frontend
    key = frontend.REPO
    if key not in _ZERO_MEMBERS:
        cls = frontend.find("series", "Zero")
        names = set()
        for st in cls.body:
            if isinstance(st, ast.FunctionDef):
                names.add(st.name)
            elif isinstance(st, ast.Assign):
                names |= {t.id for t in st.targets if isinstance(t, ast.Name)}
        _ZERO_MEMBERS[key] = names
    return name in _ZERO_MEMBERS[key]


def _add(eng, l: SObj, r: SObj, sub: bool):
    """Python semantics of l + r / l - r for series elements (series.Zero methods; numpy for
    regular values; `one` supports nothing)."""
    if eng.branch(l.tag == TAG_ZERO):
        if not sub:
            return r  # Zero.__add__ returns other
        return r.m_unop(eng, ast.USub())  # Zero.__sub__ returns -other
    if eng.branch(z3.And(l.tag == TAG_VAL, r.tag == TAG_VAL)):
        return SObj(TAG_VAL, (l.nf - r.nf) if sub else (l.nf + r.nf))
    raise PyRaise(SExc("TypeError", ("unsupported operand type(s) for +/-",), tag="sentinel-arith"))


ZERO = SObj(TAG_ZERO, NF.zero(), "zero", alias="sentinel")
ONE = SObj(TAG_ONE, NF.one(), "one", alias="sentinel")
PENDING = SObj(TAG_PENDING, NF.zero(), "PENDING", alias="sentinel")


def dagger_model(eng, x):
    """sympy.physics.quantum.Dagger on element values: uses .adjoint() when present
    (series.Zero.adjoint returns self), conjugate-transpose otherwise (assumption A-NP1)."""
    eng.used_models.add("A-NP1:Dagger")
    if not isinstance(x, SObj):
        raise Unsupported(f"Dagger({x!r})")
    if eng.branch(x.tag == TAG_ZERO):
        return x
    if eng.branch(x.tag == TAG_VAL):
        return SObj(TAG_VAL, x.nf.dagger())
    raise PyRaise(SExc("SympifyError", ("cannot sympify One",), tag="sentinel-arith"))


def numeric_probe_namespace(eng):
    """`np` for code that LOOKS INTO element values with tolerance-based tests (np.allclose / np.isclose): the answer is an arbitrary Boolean - a block whose entries are
    all tiny but not zero answers True, a generic block False - and says nothing about the value being (exactly) zero.  Exact tests (`.any()`, `count_nonzero`) are NOT
    modelled: they would justify dropping the term, so a model that leaves the answer arbitrary would produce spurious refutations (they stay Unsupported: undecided)."""
    from .core import Namespace, TypeObj
    eng.numeric_probes = True

    def tolerance_test(e, a, b=None, rtol=None, atol=None, equal_nan=None):
        if isinstance(atol, (int, float)) and atol == 0:
            raise Unsupported("tolerance test with atol=0 (an exact test when the reference is 0)")
        e.used_models.add("A-NP2:np.allclose / np.isclose against 0 with a positive absolute tolerance: True for blocks of tiny non-zero entries (the answer does not imply the value is zero)")
        return e.branch(e.fresh("tolerance_test_true", "bool"))
    return Namespace("np", {"ndarray": TypeObj("ndarray"), "number": TypeObj("number"), "inexact": TypeObj("inexact"), "floating": TypeObj("floating"),
                            "issubdtype": Builtin("np.issubdtype", lambda e, a, b: e.branch(e.fresh("issubdtype", "bool"))),
                            "allclose": Builtin("np.allclose", tolerance_test), "isclose": Builtin("np.isclose", tolerance_test)})


class SMulOp(Model):
    """The element multiplication operator (operator.matmul / operator.mul / user supplied):
    assumed bilinear and associative on regular values (A-NP1)."""

    def __init__(self, name="matmul"):
        self.name = name

    def m_call(self, eng, args, kwargs):
        eng.used_models.add("A-NP1:operator-is-ring-multiplication")
        a, b = args
        eng.oblige("operator-args-regular", z3.And(a.tag == TAG_VAL, b.tag == TAG_VAL),
                   detail="the multiplication operator is only applied to regular (non-sentinel) values")
        eng.events.append(("mul", a, b))
        return SObj(TAG_VAL, a.nf * b.nf)

    def m_is(self, eng, other):
        return other is self


# --------------------------------------------------------------------------------------
# abstract BlockSeries (callers' view)

_VEC = z3.ArraySort(z3.IntSort(), z3.IntSort())
_tagof = z3.Function("tagof", z3.IntSort(), z3.IntSort(), z3.IntSort(), _VEC, z3.IntSort())
_kz = z3.Function("known_zero", z3.IntSort(), z3.IntSort(), z3.IntSort(), _VEC, z3.BoolSort())


class SSeries(Model):
    """A BlockSeries with two finite dimensions as seen through the contract of
    __getitem__ (scalar index), __contains__, pop: element (i,j,n) denotes val(name,i,j,n)."""

    _ids = {}

    def __init__(self, name, shape0, shape1, n_inf, sid=None, hooks=None):
        self.name = name
        self.shape0, self.shape1, self.n_inf = shape0, shape1, n_inf
        self.sid = SSeries._ids.setdefault(name, len(SSeries._ids)) if sid is None else sid
        self.hooks = hooks or {}
        self.dimension_names = SStr("dimension_names")

    def __repr__(self):
        return f"<series {self.name}>"

    def m_isinstance(self, eng, clsname):
        return clsname == "BlockSeries"

    def m_getattr(self, eng, name):
        if name == "shape":
            return STup([self.shape0, self.shape1])
        if name == "n_infinite":
            return self.n_inf
        if name == "name":
            return SStr(self.name)
        if name == "dimension_names":
            return self.dimension_names
        if name == "pop":
            return Builtin("BlockSeries.pop", lambda e, key, default=None: self.pop(e, key, default))
        raise Unsupported(f"BlockSeries.{name} (callers' view)")

    def split_key(self, eng, key):
        if not isinstance(key, STup) or len(key.items) < 2:
            raise Unsupported(f"series index {key!r}")
        i, j = key.items[0], key.items[1]
        rest = key.items[2:]
        if key.tail is None:
            # concrete number of orders: build a vector
            arr = z3.K(z3.IntSort(), z3.IntVal(0))
            for k, o in enumerate(rest):
                arr = z3.Store(arr, k, zi(o))
            vec = SVec(arr, z3.IntVal(len(rest)))
        else:
            if rest:
                raise Unsupported("series index with explicit orders before a symbolic tail")
            vec = key.tail
        return i, j, vec

    def val_atom(self, i, j, vec):
        return Atom(("val", self.name, ZK(zi(i)), ZK(zi(j)), ZK(vec.arr)))

    def tag_expr(self, i, j, vec):
        return _tagof(z3.IntVal(self.sid), zi(i), zi(j), vec.arr)

    def kz_expr(self, i, j, vec):
        return _kz(z3.IntVal(self.sid), zi(i), zi(j), vec.arr)

    def element(self, eng, i, j, vec):
        atom = self.val_atom(i, j, vec)
        tag = self.tag_expr(i, j, vec)
        eng.assume(z3.And(tag >= 0, tag <= 2))
        eng.add_fact(tag == TAG_ZERO, atom, NF.zero())
        eng.add_fact(tag == TAG_ONE, atom, NF.one())
        return SObj(tag, NF({(atom,): Fraction(1)}), origin=(self, i, j, vec), alias="cache")

    def m_getitem(self, eng, key):
        i, j, vec = self.split_key(eng, key)
        eng.used_models.add("contract:BlockSeries.__getitem__(scalar index) returns the element value, evaluating at most once")
        # precondition of __getitem__ for a scalar request: right arity, in-range blocks, non-negative orders
        pre = z3.And(
            vec.n == zi(self.n_inf),
            zi(i) >= 0, zi(i) < zi(self.shape0), zi(j) >= 0, zi(j) < zi(self.shape1),
        )
        eng.oblige(f"pre:{self.name}[...]-blocks-and-arity@{eng.site()}", pre, detail="index passed to BlockSeries.__getitem__ has the right arity and in-range block indices")
        eng.oblige_forall(f"pre:{self.name}[...]-orders>=0@{eng.site()}", vec.n, lambda k: vec.at(k) >= 0,
                          detail="orders passed to BlockSeries.__getitem__ are non-negative")
        eng.events.append(("read", self, i, j, vec, list(eng.pc)))
        if "on_read" in self.hooks:
            self.hooks["on_read"](eng, self, i, j, vec)
        obj = self.element(eng, i, j, vec)
        # an element that is known (cached) zero is the zero sentinel
        eng.assume(z3.Implies(self.kz_expr(i, j, vec), obj.tag == TAG_ZERO))
        return obj

    def m_contains(self, eng, item):
        eng.used_models.add("contract:BlockSeries.__contains__ is False only for an element cached as zero")
        i, j, vec = self.split_key(eng, item)
        kz = self.kz_expr(i, j, vec)
        eng.assume(z3.Implies(kz, self.tag_expr(i, j, vec) == TAG_ZERO))
        eng.events.append(("contains", self, i, j, vec))
        return wrap_bool(z3.Not(kz))

    def pop(self, eng, key, default):
        i, j, vec = self.split_key(eng, key)
        eng.events.append(("pop", self, i, j, vec))
        return None


# --------------------------------------------------------------------------------------
# iteration spaces


class SRange(Model):
    def __init__(self, lo, hi):
        self.lo, self.hi = lo, hi

    def m_iter(self, eng):
        if isinstance(self.lo, int) and isinstance(self.hi, int):
            return STup(list(range(self.lo, self.hi)), None, True)
        raise Unsupported("iteration over a symbolic range (needs a loop rule)")

    def lift(self, eng, k, n):
        # vector of ranges: element k is range(lo(k), hi(k))
        from .core import KAPPA
        lo, hi = zi(self.lo), zi(self.hi)
        lo_vec = eng.new_vec(lambda kk: z3.substitute(lo, (KAPPA, kk)), n)
        hi_vec = eng.new_vec(lambda kk: z3.substitute(hi, (KAPPA, kk)), n)
        return STup([], SRangeVec(lo_vec, hi_vec, n), True)


class SRangeVec:
    """(range(lo_k, hi_k) for k < n) with symbolic n; only itertools.product understands it."""

    def __init__(self, lo_vec, hi_vec, n):
        self.lo_vec, self.hi_vec, self.n = lo_vec, hi_vec, n


class SProduct(Model):
    """itertools.product(range(a0,b0), ..., *(range(lo_k,hi_k) for k<n)): a symbolic finite
    iteration space; a `for` over it is handled by a loop rule supplied by the contract."""

    def __init__(self, heads, rangevec):
        self.heads = heads  # list of SRange
        self.rangevec = rangevec  # SRangeVec or None

    def m_for(self, eng, stmt, env):
        rule = eng.loop_rules.get("product")
        if rule is None:
            raise Unsupported("for-loop over itertools.product of symbolic ranges without a loop rule")
        return rule(eng, self, stmt, env)


# --------------------------------------------------------------------------------------
# builtins


def _isinstance(eng, obj, cls):
    names = [c.name for c in (cls.items if isinstance(cls, STup) else [cls])]
    flat = []
    for n in names:
        flat += list(n) if isinstance(n, tuple) else [n]
    res = False
    for n in flat:
        res = res or _isinstance1(eng, obj, n)
    return res


def _isinstance1(eng, obj, n):
    if isinstance(obj, Model) and not isinstance(obj, (Builtin,)):
        return obj.m_isinstance(eng, n)
    if n == "tuple":
        return isinstance(obj, STup) and not obj.is_list
    if n == "list":
        return isinstance(obj, STup) and obj.is_list
    if n == "int":
        return isinstance(obj, (int, SI))  # bool is an int in Python
    if n == "bool":
        return isinstance(obj, (bool, SB))
    if n == "str":
        return isinstance(obj, (str, SStr))
    if n == "slice":
        return isinstance(obj, SSlice)
    if n == "dict":
        return isinstance(obj, dict)
    if isinstance(obj, (int, bool, str, SI, SB, STup, SSlice, dict, type(None), SStr)):
        return False
    raise Unsupported(f"isinstance({obj!r}, {n})")


def _len(eng, x):
    if isinstance(x, STup):
        if x.tail is None:
            return len(x.items)
        return wrap_int(len(x.items) + x.tail.n)
    if isinstance(x, dict):
        return len(x)
    if isinstance(x, Model):
        return x.m_len(eng)
    raise Unsupported(f"len({x!r})")


def _tuple(eng, x=None):
    if x is None:
        return STup([])
    s = eng.as_seq(x)
    return STup(list(s.items), s.tail, False)


def _list(eng, x=None):
    if x is None:
        return STup([], None, True)
    s = eng.as_seq(x)
    return STup(list(s.items), s.tail, True)


def _range(eng, *a):
    if len(a) == 1:
        lo, hi = 0, a[0]
    elif len(a) == 2:
        lo, hi = a
    else:
        raise Unsupported("range with step")
    return SRange(lo, hi)


class SZip(Model):
    def __init__(self, seqs):
        self.seqs = seqs

    def m_iter(self, eng):
        seqs = [eng.as_seq(s) for s in self.seqs]
        if all(s.tail is None for s in seqs):
            n = min(len(s.items) for s in seqs) if seqs else 0
            return STup([STup([s.items[k] for s in seqs]) for k in range(n)], None, True)
        raise Unsupported("materialising zip over symbolic-length sequences")

    def m_comprehension(self, eng, e, g, env):
        seqs = [eng.as_seq(s) for s in self.seqs]
        if all(s.tail is None for s in seqs):
            n = min(len(s.items) for s in seqs) if seqs else 0
            out = []
            from .core import Env
            for k in range(n):
                cenv = Env(env)
                cenv.is_comprehension = True
                eng.assign(g.target, STup([s.items[k] for s in seqs]), cenv)
                if all(eng.truth(eng.eval(c, cenv)) for c in g.ifs):
                    out.append(eng.eval(e.elt, cenv))
            return STup(out, None, True)
        if all((not s.items) and isinstance(s.tail, SVec) for s in seqs):
            return eng.lift_comprehension(e, g, [s.tail for s in seqs], env)
        raise Unsupported("zip over mixed concrete/symbolic sequences")


def _zip(eng, *seqs, strict=False):
    return SZip(list(seqs))


def _product(eng, *args):
    heads = []
    rv = None
    for a in args:
        if isinstance(a, StarTail):
            seq = a.seq
            if seq.items or not isinstance(seq.tail, SRangeVec):
                raise Unsupported("product(*symbolic) of non-range elements")
            rv = seq.tail
        elif isinstance(a, SRange):
            if rv is not None:
                raise Unsupported("product argument after symbolic-length *args")
            heads.append(a)
        else:
            raise Unsupported(f"product over {a!r}")
    return SProduct(heads, rv)


_vprod = z3.Function("vprod", _VEC, z3.IntSort(), z3.IntSort())


def _reduce(eng, f, seq, *init):
    s = eng.as_seq(seq)
    if s.tail is None:
        items = list(init) + s.items
        if not items:
            raise PyRaise(SExc("TypeError", ("reduce() of empty iterable with no initial value",)))
        acc = items[0]
        for x in items[1:]:
            acc = eng.call(f, [acc, x])
        return acc
    if isinstance(f, Builtin) and f.name == "mul" and not s.items and isinstance(s.tail, SVec) and (not init or (len(init) == 1 and isinstance(init[0], int))):
        # product of a symbolic-length integer vector: uninterpreted (only its relative
        # size steers the order of two requests, never a value)
        if not init and not eng.valid(s.tail.n >= 1):
            if eng.branch(s.tail.n < 1):
                raise PyRaise(SExc("TypeError", ("reduce() of empty iterable with no initial value",)))
        p = _vprod(s.tail.arr, s.tail.n)
        return wrap_int(p if not init or init[0] == 1 else init[0] * p)
    raise Unsupported("reduce over symbolic-length sequence")


def _mul(eng, a, b):
    return eng.binop(ast.Mult(), a, b)


def _sum(eng, it, start=0):
    s = eng.as_seq(it)
    if s.tail is not None:
        raise Unsupported("sum over symbolic-length sequence")
    acc = start
    for x in s.items:
        acc = eng.binop(ast.Add(), acc, x)
    return acc


def _all(eng, it):
    s = eng.as_seq(it)
    if s.tail is not None:
        raise Unsupported("all over symbolic-length sequence")
    for x in s.items:
        if not eng.truth(x):
            return False
    return True


def _any(eng, it):
    s = eng.as_seq(it)
    if s.tail is not None:
        raise Unsupported("any over symbolic-length sequence")
    for x in s.items:
        if eng.truth(x):
            return True
    return False


def _minmax(which):
    def f(eng, *a, **kw):
        if len(a) == 1:
            s = eng.as_seq(a[0])
            if s.tail is not None:
                raise Unsupported("min/max over symbolic-length sequence")
            a = s.items
        acc = a[0]
        for x in a[1:]:
            if all(isinstance(v, int) for v in (acc, x)):
                acc = min(acc, x) if which == "min" else max(acc, x)
            else:
                c = zi(x) < zi(acc) if which == "min" else zi(x) > zi(acc)
                acc = wrap_int(z3.If(c, zi(x), zi(acc)))
        return acc
    return f


def _abs(eng, x):
    if isinstance(x, int):
        return abs(x)
    return wrap_int(z3.If(zi(x) >= 0, zi(x), -zi(x)))


def _enumerate(eng, it, start=0):
    s = eng.as_seq(it)
    if s.tail is not None:
        raise Unsupported("enumerate over symbolic-length sequence")
    return STup([STup([i + start, x]) for i, x in enumerate(s.items)], None, True)


def _reversed(eng, it):
    s = eng.as_seq(it)
    if s.tail is not None:
        raise Unsupported("reversed over symbolic-length sequence")
    return STup(list(reversed(s.items)), None, True)


def _int(eng, x=0):
    if isinstance(x, (int, SI)):
        return int(x) if isinstance(x, bool) else x
    if isinstance(x, SB):
        return wrap_int(zi(x))
    raise Unsupported(f"int({x!r})")


def _bool(eng, x=False):
    t = eng.truth(x)
    return t


def _set(eng, it=None):
    if it is None:
        return STup([], None, True)
    s = eng.as_seq(it)
    if s.tail is not None:
        raise Unsupported("set over symbolic-length sequence")
    out = []
    for x in s.items:
        if not any(eng.truth(eng.compare_eq(x, y)) for y in out):
            out.append(x)
    return STup(out, None, True)


def _next(eng, it, *default):
    s = eng.as_seq(it)
    if s.tail is not None:
        raise Unsupported("next over symbolic-length sequence")
    if s.items:
        return s.items[0]
    if default:
        return default[0]
    raise PyRaise(SExc("StopIteration", ()))


def _iter(eng, it):
    return eng.as_seq(it)


def _sorted(eng, it, key=None, reverse=False):
    s = eng.as_seq(it)
    if s.tail is not None:
        raise Unsupported("sorted of symbolic-length sequence")
    ks = [eng.call(key, [x], {}) if key is not None else x for x in s.items]

    def concrete(k):
        # tuples of concrete integers / strings compare lexicographically, as in Python
        if isinstance(k, STup) and k.tail is None and all(isinstance(x, (str, int)) and not isinstance(x, bool) for x in k.items):
            return tuple(k.items)
        return k
    ks = [concrete(k) for k in ks]
    if ks and all(isinstance(k, tuple) for k in ks):
        if len({tuple(type(x) for x in k) for k in ks}) != 1:
            raise Unsupported("sorted with keys of different shapes")
    elif not all(isinstance(k, (str, int)) and not isinstance(k, bool) for k in ks) and not all(isinstance(k, str) for k in ks):
        raise Unsupported("sorted with symbolic keys")
    order = sorted(range(len(ks)), key=lambda i: ks[i], reverse=bool(reverse))
    return STup([s.items[i] for i in order], None, True)


def base_globals():
    g = {
        "sorted": Builtin("sorted", _sorted),
        "isinstance": Builtin("isinstance", _isinstance),
        "len": Builtin("len", _len),
        "tuple": TupleType("tuple", _tuple),
        "list": TupleType("list", _list),
        "range": Builtin("range", _range),
        "zip": Builtin("zip", _zip),
        "product": Builtin("product", _product),
        "reduce": Builtin("reduce", _reduce),
        "mul": Builtin("mul", _mul),
        "sum": Builtin("sum", _sum),
        "all": Builtin("all", _all),
        "any": Builtin("any", _any),
        "min": Builtin("min", _minmax("min")),
        "max": Builtin("max", _minmax("max")),
        "abs": Builtin("abs", _abs),
        "enumerate": Builtin("enumerate", _enumerate),
        "reversed": Builtin("reversed", _reversed),
        "int": TupleType("int", _int),
        "bool": TupleType("bool", _bool),
        "set": Builtin("set", _set),
        "next": Builtin("next", _next),
        "iter": Builtin("iter", _iter),
        "slice": TypeObj("slice"),
        "str": TypeObj("str"),
        "dict": DictType("dict", lambda eng, *a, **kw: dict(*a, **kw)),
        "zero": ZERO,
        "one": ONE,
        "PENDING": PENDING,
        "Dagger": Builtin("Dagger", dagger_model),
        "matmul": SMulOp("matmul"),
        "BlockSeries": TypeObj("BlockSeries"),
        "object": TypeObj("object"),
        "None": None,
    }
    return g


class DictType(Builtin):
    """`dict` as a callable, as a type in isinstance and with the classmethod `fromkeys`."""

    def __init__(self, name, fn):
        super().__init__(name, fn)
        self.typename = name

    def m_getattr(self, eng, name):
        if name == "fromkeys":
            def fromkeys(e, keys, value=None):
                s = e.as_seq(keys)
                if s.tail is not None:
                    raise Unsupported("dict.fromkeys over a symbolic-length sequence")
                return {e.hashable(k): value for k in s.items}
            return Builtin("dict.fromkeys", fromkeys)
        raise Unsupported(f"dict.{name}")


class TupleType(Builtin):
    """A builtin type that is both callable and usable in isinstance."""

    def __init__(self, name, fn):
        super().__init__(name, fn)
