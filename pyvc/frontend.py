"""Source lookup: the verified text is the text in /repo's working tree, re-read on every run.

`find(module, qualpath)` returns the AST node of a function addressed by a path such as
  "BlockSeries.__getitem__"            method of a class
  "product_by_order"                   module-level function
  "block_diagonalize/diag#0"           first nested def named diag inside block_diagonalize
  "solve_sylvester_diagonal/solve_sylvester"
What extraction drops (stated in every evidence file): docstrings, type annotations,
decorators, comments.  Nothing else is rewritten.
"""
from __future__ import annotations

import ast
import hashlib
import os

REPO = os.environ.get("PYVC_REPO", "/repo")


class SourceError(Exception):
    pass


_cache = {}


def module_path(module):
    return os.path.join(REPO, "pymablock", module + ".py")


def module_ast(module):
    path = module_path(module)
    st = os.stat(path)
    key = (path, st.st_mtime_ns, st.st_size)
    if key not in _cache:
        with open(path, encoding="utf8") as f:
            text = f.read()
        _cache[key] = (ast.parse(text, filename=path), text)
    return _cache[key]


def _children_defs(node, name):
    """All FunctionDef/ClassDef named `name` nested anywhere under node (document order),
    not descending into other function definitions' nested functions of the same name first."""
    out = []

    class V(ast.NodeVisitor):
        def generic_visit(self, n):
            for ch in ast.iter_child_nodes(n):
                if isinstance(ch, (ast.FunctionDef, ast.ClassDef, ast.AsyncFunctionDef)) and ch.name == name:
                    out.append(ch)
                self.visit(ch)

    V().generic_visit(node)
    return out


def find(module, qualpath):
    tree, text = module_ast(module)
    node = tree
    for part in qualpath.replace(".", "/").split("/"):
        name, _, ordinal = part.partition("#")
        cands = _children_defs(node, name) if node is not tree else [
            n for n in tree.body if isinstance(n, (ast.FunctionDef, ast.ClassDef)) and n.name == name
        ]
        if not cands:
            raise SourceError(f"{module}:{qualpath}: no definition named {name!r}")
        k = int(ordinal) if ordinal else 0
        if k >= len(cands):
            raise SourceError(f"{module}:{qualpath}: only {len(cands)} definitions named {name!r}")
        node = cands[k]
    return node


def source_hash(node, module):
    _tree, text = module_ast(module)
    seg = ast.get_source_segment(text, node) or ast.dump(node)
    return hashlib.sha256(seg.encode("utf8")).hexdigest()[:16]


def describe(module, qualpath):
    node = find(module, qualpath)
    return {
        "function": f"pymablock/{module}.py:{qualpath}",
        "lines": [node.lineno, node.end_lineno],
        "sha256_16": source_hash(node, module),
    }


def strip_docstring(body):
    if body and isinstance(body[0], ast.Expr) and isinstance(body[0].value, ast.Constant) and isinstance(body[0].value.value, str):
        return body[1:]
    return body
