#!/bin/sh
# run every seeded change against the check of the property it targets (sequentially; /repo is patched and restored each time)
cd /verif
for d in seeded/*/; do
  id=$(basename $d)
  if [ -f props/$id.py ]; then
    echo "#### seed $id"
    tools/seed_eval.sh /verif/seeded/$id/patch.diff $id 2>&1 | grep -E "exit=|VIOLATION|UNDECIDED|KNOWN" | cut -c1-220 | head -6
  else
    echo "#### seed $id: no check for $id yet"
  fi
done
