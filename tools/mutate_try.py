"""Apply a textual mutation to a scratch copy of /repo (outside /repo and /verif), run a
callable against it via PYVC_REPO, remove the copy.  Usage from python:
    with mutated({"pymablock/series.py": [(old, new)]}) as path: ...
"""
import contextlib, os, shutil, subprocess, sys, tempfile


@contextlib.contextmanager
def mutated(edits=None, patch=None):
    tmp = tempfile.mkdtemp(prefix="pyvc_mut_")
    dst = os.path.join(tmp, "repo")
    try:
        shutil.copytree("/repo", dst, ignore=shutil.ignore_patterns(".git", "htmlcov", "__pycache__", "docs", "*.xml"))
        for rel, subs in (edits or {}).items():
            p = os.path.join(dst, rel)
            s = open(p).read()
            for old, new in subs:
                if s.count(old) != 1:
                    raise SystemExit(f"mutation anchor occurs {s.count(old)} times in {rel}: {old!r}")
                s = s.replace(old, new)
            open(p, "w").write(s)
        if patch:
            subprocess.run(["patch", "-p1", "-d", dst, "-i", os.path.abspath(patch), "--quiet"], check=True)
        yield dst
    finally:
        shutil.rmtree(tmp, ignore_errors=True)
