#!/bin/sh
# usage: seed_eval.sh <patch.diff> <prop> [<prop>...]   -- apply to /repo, run quick checks, always undo
patch="$1"; shift
rm -rf /tmp/ev_backup_$$; cp -r /verif/evidence /tmp/ev_backup_$$
git -C /repo apply "$patch" || { echo "patch does not apply"; rm -rf /tmp/ev_backup_$$; exit 9; }
for p in "$@"; do
  out=$(cd /verif && ./check "$p" quick 2>&1); code=$?
  echo "== $p exit=$code"; echo "$out" | grep -E "VIOLATION|UNDECIDED|KNOWN|CRASH| quick:" | cut -c1-300 | head -8
done
git -C /repo checkout -- . ; rm -rf /verif/evidence; mv /tmp/ev_backup_$$ /verif/evidence; git -C /repo status --short | head -3
