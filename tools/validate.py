import json, sys, glob, jsonschema
m = json.load(open('/verif/MANIFEST.json'))
jsonschema.validate(m, json.load(open('/root/.vp/MANIFEST.schema.json')))
es = json.load(open('/root/.vp/EVIDENCE.schema.json'))
bad = 0
for c in m['checks']:
    p = c['evidence_file']
    try:
        ev = json.load(open(p))
        jsonschema.validate(ev, es)
        cov = ev['coverage']
        assert ev['level'] == c['level_claimed']['category'], (ev['level'], c['level_claimed']['category'])
        if ev['level'] == 'proof':
            assert cov['obligations'] == cov['discharged'] >= 1
        print('ok', c['property_id'], ev['level'], cov.get('obligations'), cov.get('discharged'))
    except Exception as e:
        bad += 1; print('BAD', c['property_id'], type(e).__name__, str(e)[:300])
props = [json.loads(l)['id'] for l in open('/verif/properties.jsonl')]
claimed = {c['property_id'] for c in m['checks']}; na = {x['property_id'] for x in m.get('not_applicable', [])}
assert claimed | na == set(props) and not (claimed & na), (sorted(set(props) - claimed - na), sorted(claimed & na))
print('manifest ok; claimed', sorted(claimed)); sys.exit(1 if bad else 0)
