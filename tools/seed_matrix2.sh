#!/bin/sh
# every stored seeded change against the check of the property it targets, and every harmless diff against the properties it touches
# (scratch copies only; see seed_eval2.sh).  Output: one line per seed with the exit code (expected 1) / per harmless diff (expected 0).
cd /verif
for round in seeded seeded3 seeded4 seeded5 seeded6; do
  for d in $round/*/; do
    id=$(basename $d)
    [ -f $d/patch.diff ] || continue
    r=$(tools/seed_eval2.sh /verif/$d/patch.diff $id 2>&1 | grep -E "exit=" | head -1)
    echo "$round/$id $r"
  done
done
for h in harmless/h*.diff; do
  f=$(grep -m1 "^+++ b/" $h | sed 's#+++ b/pymablock/##')
  case "$f" in
    series.py) props="C18 C19 C10 C11 C12";;
    algorithms.py) props="C01 C05 C09";;
    block_diagonalization.py) props="C01 C03 C13 C14 C15 C16 C20";;
    number_ordered_form.py) props="C08 C07";;
    second_quantization.py) props="C07 C16";;
    linalg.py) props="C17 C06 C16";;
    algorithm_parsing.py) props="C09 C12 C02";;
    *) props="C01 C09";;
  esac
  r=$(tools/seed_eval2.sh /verif/$h $props 2>&1 | grep -E "exit=" | tr '\n' ' ')
  echo "$h $r"
done
