#!/bin/sh
# like seed_matrix2.sh, but the seeds are evaluated 4 at a time (the Lean build is serialised by runlean's lock; every evaluation has its own
# scratch copy of the repository and its own evidence directory)
# usage: seed_matrix3.sh [round ...]   (default: all rounds + harmless)
cd /verif
rounds="${@:-seeded seeded3 seeded4 seeded5 seeded6 seeded7 seeded8 seeded9 seeded10 seeded11 harmless}"
list=$(mktemp)
for round in $rounds; do
  if [ "$round" = harmless ]; then
    for h in harmless/h*.diff; do
      f=$(grep -m1 "^+++ b/" $h | sed 's#+++ b/pymablock/##' | cut -f1)
      case "$f" in
        series.py) props="C18 C19 C10 C11 C12";;
        algorithms.py) props="C01 C05 C09";;
        block_diagonalization.py) props="C01 C03 C13 C14 C15 C16 C20";;
        number_ordered_form.py) props="C08 C07";;
        second_quantization.py) props="C07 C16";;
        linalg.py) props="C17 C06 C16";;
        kpm.py) props="C06 C16";;
        algorithm_parsing.py) props="C09 C12 C02";;
        *) props="C01 C09";;
      esac
      echo "$h /verif/$h $props" >> $list
    done
  else
    for d in $round/*/; do
      id=$(basename $d)
      [ -f $d/patch.diff ] || continue
      echo "$round/$id /verif/${d}patch.diff $id" >> $list
    done
  fi
done
xargs -P 4 -L 1 sh -c 'label=$0; patch=$1; shift; r=$(tools/seed_eval2.sh $patch "$@" 2>&1 | grep -E "exit=|does not apply" | tr "\n" " "); echo "$label $r"' < $list
rm -f $list
