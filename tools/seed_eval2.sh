#!/bin/sh
# usage: seed_eval2.sh <patch.diff> <prop> [<prop>...]
# Like seed_eval.sh but without touching /repo: the patch is applied to a scratch copy of /repo's working tree and the checks
# read that copy through PYVC_REPO (every reader of the repository honours it).  Evidence is backed up and restored.
patch="$1"; shift
S=/tmp/sev_$$; rm -rf $S; mkdir -p $S
(cd /repo && git ls-files -z | xargs -0 cp --parents -t $S) || exit 9
(cd $S && patch -p1 -s --no-backup-if-mismatch < "$patch") || { echo "patch does not apply"; rm -rf $S; exit 9; }
rm -rf /tmp/ev_backup_$$; cp -r /verif/evidence /tmp/ev_backup_$$
for p in "$@"; do
  out=$(cd /verif && PYVC_REPO=$S ./check "$p" quick 2>&1); code=$?
  echo "== $p exit=$code"; echo "$out" | grep -E "VIOLATION|UNDECIDED|KNOWN|CRASH| quick:" | cut -c1-300 | head -8
done
rm -rf /verif/evidence; mv /tmp/ev_backup_$$ /verif/evidence; rm -rf $S
(cd /verif && .venv/bin/python -m leanalg.genlean >/dev/null 2>&1)
