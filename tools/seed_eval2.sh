#!/bin/sh
# usage: seed_eval2.sh <patch.diff> <prop> [<prop>...]
# Like seed_eval.sh but without touching /repo or /verif/evidence: the patch is applied to a scratch copy of /repo's working tree, the checks
# read that copy through PYVC_REPO (every reader of the repository honours it) and write their evidence to a scratch directory (VERIF_EVIDENCE_DIR).
patch="$1"; shift
S=/tmp/sev_$$; rm -rf $S; mkdir -p $S/repo $S/evidence
(cd /repo && git ls-files -z | xargs -0 cp --parents -t $S/repo) || exit 9
(cd $S/repo && patch -p1 -s --no-backup-if-mismatch < "$patch") || { echo "patch does not apply"; rm -rf $S; exit 9; }
for p in "$@"; do
  out=$(cd /verif && PYVC_REPO=$S/repo VERIF_EVIDENCE_DIR=$S/evidence ./check "$p" quick 2>&1); code=$?
  echo "== $p exit=$code"; echo "$out" | grep -E "VIOLATION|UNDECIDED|KNOWN|CRASH| quick:" | sed "s#$S/evidence#<scratch-evidence>#g" | cut -c1-300 | head -8
done
rm -rf $S
(cd /verif && .venv/bin/python -m leanalg.genlean >/dev/null 2>&1)
