"""Verify a seeded change: patch applies to /repo HEAD, demo passes without / fails with it, baseline tests still pass with it.
usage: verify_seed.py <dir-with-patch.diff+demo.py> [--tests]"""
import json, os, subprocess, sys, tempfile, shutil
sys.path.insert(0, '/verif')
from tools.mutate_try import mutated
d = sys.argv[1]
run_tests = '--tests' in sys.argv
res = {"dir": d}
r0 = subprocess.run(['/venv/bin/python', os.path.join(d, 'demo.py'), '/repo'], capture_output=True, text=True, timeout=1800)
res["demo_on_repo_exit"] = r0.returncode
try:
    with mutated(patch=os.path.join(d, 'patch.diff')) as path:
        r1 = subprocess.run(['/venv/bin/python', os.path.join(d, 'demo.py'), path], capture_output=True, text=True, timeout=1800, cwd=path)
        res["demo_with_patch_exit"] = r1.returncode
        res["demo_with_patch_tail"] = (r1.stdout + r1.stderr)[-300:]
        if run_tests:
            junit = os.path.join(path, 'junit_seed.xml')
            t = subprocess.run(['/venv/bin/python', '-m', 'pytest', '-q', '-p', 'no:cacheprovider', '--timeout=900', '--continue-on-collection-errors',
                                '--junitxml=' + junit, 'pymablock/tests'], capture_output=True, text=True, timeout=3000, cwd=path)
            c = subprocess.run(['/venv/bin/python', '/verif/tools_baseline_compare.py', junit], capture_output=True, text=True)
            res["baseline_with_patch"] = c.stdout.strip().splitlines()[0] if c.stdout else c.stderr[-200:]
            res["baseline_ok"] = c.returncode == 0
except SystemExit as e:
    res["error"] = str(e)
except subprocess.CalledProcessError as e:
    res["error"] = "patch does not apply: " + str(e)
print(json.dumps(res))
