"""Native bounded battery for the series layer (C10, C11, C12, C18, C19).

Not a deciding step.  It is used (1) to attach a concrete failing input to a failed obligation
(replay), (2) as the labelled *bounded stand-in* when the code under check leaves the subset the
verifier accepts.  Usage:  python series_battery.py <repo-path> <section>[,<section>...]
Prints one JSON object {"cases": n, "failures": [...]}; exit 1 if there is a failure.
Bounds: shapes <= (2,3), <= 2 infinite dimensions, orders <= 3, index entries from a fixed list.
"""
import itertools
import json
import sys
import warnings

repo = sys.argv[1] if len(sys.argv) > 1 else "/repo"
sections = (sys.argv[2] if len(sys.argv) > 2 else "index,fault,product,lazy,history").split(",")
sys.path.insert(0, repo)
warnings.simplefilter("ignore")
import numpy as np  # noqa: E402

from pymablock.series import BlockSeries, cauchy_dot_product, one, zero  # noqa: E402

failures = []
cases = 0
MAXF = 5


def fail(section, what, **kw):
    if len(failures) < 40:
        failures.append(dict(section=section, what=what, **{k: repr(v)[:300] for k, v in kw.items()}))


# ------------------------------------------------------------------------------ C19 / C12
def section_index():
    global cases
    entries_fin = [0, 1, -1, slice(None), slice(0, 2), [0, 1], [1, 0], [1, 1], np.int64(1)]
    entries_inf = [0, 2, slice(None, 3), slice(1, 3), slice(None, 3, 2), [0, 2], [2, 0], [1, 1], [3], np.int64(2), [], slice(np.int64(1), np.int64(3))]
    bad_inf = [-1, slice(None), slice(None, -1), [-1, 1], slice(-1, 2), np.int64(-1), slice(np.int64(-2), 3), slice(None, np.int64(-1)), np.array([0, -1])]
    BOX = 5
    for shape, ninf in (((2,), 1), ((2,), 2), ((2, 3), 1), ((), 1), ((2, 3), 2), ((2, 3, 2), 1)):      # three finite dimensions: lists between slices
        def is_zero(idx):
            return sum(idx) % 4 == 3

        def mk():
            log = []

            def ev(*idx):
                log.append(idx)
                return zero if is_zero(idx) else ("v",) + tuple(int(i) for i in idx)
            return BlockSeries(eval=ev, shape=shape, n_infinite=ninf), log

        full = shape + (BOX,) * ninf
        dense = np.empty(full, dtype=object)
        addr = np.empty(full, dtype=object)
        for idx in np.ndindex(*full):
            dense[idx] = zero if is_zero(idx) else ("v",) + tuple(int(i) for i in idx)
            addr[idx] = tuple(int(i) for i in idx)
        fin_choices = [entries_fin if d > 1 else [0, slice(None)] for d in shape]
        for item in itertools.product(*fin_choices, *([entries_inf] * ninf)):
            try:
                exp = dense[item]
            except IndexError:
                continue      # two lists that numpy cannot broadcast against each other: not a valid index expression
            cases += 1
            s, log = mk()
            try:
                got = s[item]
            except Exception as e:
                fail("index", "valid index raised", shape=shape, item=item, error=e)
                continue
            want_addr = set(np.atleast_1d(np.asarray(addr[item], dtype=object)).ravel().tolist()) if not isinstance(addr[item], tuple) else {addr[item]}
            if set(log) != want_addr:
                fail("index", "evaluated set differs from the addressed set", shape=shape, item=item, evaluated=sorted(set(log)), addressed=sorted(want_addr))
            if len(log) != len(set(log)):
                fail("index", "an element was evaluated more than once", shape=shape, item=item, evaluated=log)
            if isinstance(exp, np.ndarray):
                if not isinstance(got, np.ma.MaskedArray) or got.shape != exp.shape:
                    fail("index", "result is not a masked array of the numpy shape", shape=shape, item=item, got=type(got), want=exp.shape)
                    continue
                for pos in np.ndindex(*exp.shape):
                    e, g = exp[pos], got[pos]
                    if e is zero:
                        if g is not np.ma.masked:
                            fail("index", "zero entry not masked", shape=shape, item=item, pos=pos)
                    elif g is np.ma.masked or g != e:
                        fail("index", "wrong entry", shape=shape, item=item, pos=pos, got=g, want=e)
            else:
                if not (got is exp or got == exp):
                    fail("index", "wrong single entry", shape=shape, item=item, got=got, want=exp)
            n0 = len(log)
            s[item]
            if len(log) != n0:
                fail("index", "cached elements re-evaluated on a repeated request", shape=shape, item=item)
        # finite-dimension-only indices: a view (BlockSeries over the remaining finite shape numpy gives) with the same elements, evaluated through the parent once
        if shape:
            fin_view = [entries_fin + [[1, 0, 1], np.int64(1)] if d > 1 else [0, slice(None), [0]] for d in shape]
            if len(shape) >= 2:
                fin_view[1] = fin_view[1] + [[2, 0], [1, 1, 0]]
            for item in itertools.product(*fin_view):
                try:
                    vshape = np.empty(shape)[item].shape
                except IndexError:
                    continue      # broadcast mismatch between two lists: numpy rejects it, nothing to compare
                cases += 1
                s, log = mk()
                try:
                    view = s[item]
                    if not isinstance(view, BlockSeries):
                        fail("index", "finite-only index did not give a BlockSeries view", shape=shape, item=item, got=type(view))
                        continue
                    if tuple(view.shape) != tuple(vshape) or view.n_infinite != ninf:
                        fail("index", "view has the wrong shape (numpy shape of the finite part expected)", shape=shape, item=item, got=(view.shape, view.n_infinite), want=(vshape, ninf))
                        continue
                    if log:
                        fail("index", "creating a view evaluated elements", shape=shape, item=item, evaluated=log)
                    sub = dense[item]       # shape vshape + (BOX,) * ninf
                    sub_addr = addr[item]
                    for vidx in np.ndindex(*vshape):
                        for orders in itertools.product(range(3), repeat=ninf):
                            g = view[tuple(vidx) + orders]
                            e = sub[tuple(vidx) + orders] if isinstance(sub, np.ndarray) else sub
                            if not (g is e or (e is not zero and g is not zero and g == e)):
                                fail("index", "view element differs from the element of the parent", shape=shape, item=item, at=tuple(vidx) + orders, got=g, want=e)
                    if len(log) != len(set(log)):
                        fail("index", "an element was evaluated more than once through a view", shape=shape, item=item, evaluated=log)
                    # slicing the view in its infinite part gives what the dense sub-array gives
                    if vshape:
                        whole = view[(slice(None),) * len(vshape) + (slice(None, 3),) * ninf]
                        exp = sub[(slice(None),) * len(vshape) + (slice(None, 3),) * ninf]
                        if not isinstance(whole, np.ma.MaskedArray) or whole.shape != exp.shape:
                            fail("index", "slice of a view is not a masked array of the numpy shape", shape=shape, item=item, got=getattr(whole, "shape", type(whole)), want=exp.shape)
                        else:
                            for pos in np.ndindex(*exp.shape):
                                e, g = exp[pos], whole[pos]
                                if (e is zero) != (g is np.ma.masked) or (e is not zero and g != e):
                                    fail("index", "wrong entry in a slice of a view", shape=shape, item=item, pos=pos, got=g, want=e)
                except Exception as e:
                    fail("index", "finite-only index / reading through the view raised", shape=shape, item=item, error=repr(e))
        for bad in bad_inf:
            item = tuple(0 for _ in shape) + (bad,) + (0,) * (ninf - 1)
            cases += 1
            s, log = mk()
            try:
                r = s[item]
                fail("index", "infinite/negative order request did not raise IndexError", shape=shape, item=item, got=r)
            except IndexError:
                pass
            except Exception as e:
                fail("index", "infinite/negative order request raised something else than IndexError", shape=shape, item=item, error=e)
    # dependent elements inside one batched request: each evaluated once
    for order in ([(0, 1), (1, 0)], [(1, 0), (0, 1)]):
        cases += 1
        log = []

        def ev(i, j, n):
            log.append((i, j, n))
            if (i, j) == order[0]:
                return ("dep", S[order[1] + (n,)])
            return ("leaf", i, j, n)
        S = BlockSeries(eval=ev, shape=(2, 2), n_infinite=1)
        got = S[:2, :2, 1]
        if len(log) != len(set(log)):
            fail("index", "element evaluated twice inside one batched request with internal dependency", log=log)
        # ... and the batched result holds every element's value (a nested request of the same extent must not disturb the outer one)
        for i in range(2):
            for j in range(2):
                want = ("dep", ("leaf",) + order[1] + (1,)) if (i, j) == order[0] else ("leaf", i, j, 1)
                if got[i, j] is np.ma.masked or got[i, j] != want:
                    fail("index", "batched request with an internal dependency returns a wrong entry", entry=(i, j), got=repr(got[i, j]), want=want, dependent=order[0])
    # the same through list requests, finite-only views and a Hermitian-style definition (lower blocks read the upper ones at the same orders), several request shapes
    def evh(i, j, n):
        if i > j:
            return ("adj", Sh[j, i, n])
        return ("val", i, j, n)
    for req in ((slice(None), slice(None), 2), (slice(None), slice(None), slice(None, 3)), ([1, 0], slice(None), 2), (slice(None), [1, 0], [1, 2]), (1, slice(None), 1), (slice(None), 0, slice(1, 3))):
        cases += 1
        Sh = BlockSeries(eval=evh, shape=(2, 2), n_infinite=1)
        got = Sh[req]
        ref_arr = np.empty((2, 2, 4), dtype=object)
        for i, j, n in np.ndindex(2, 2, 4):
            ref_arr[i, j, n] = ("adj", ("val", j, i, n)) if i > j else ("val", i, j, n)
        want = ref_arr[req]
        for pos in np.ndindex(*want.shape):
            if got[pos] is np.ma.masked or got[pos] != want[pos]:
                fail("index", "request on a series whose lower blocks read its upper blocks returns a wrong entry", request=req, pos=pos, got=repr(got[pos]), want=want[pos])
                break
    cases += 1
    Sh = BlockSeries(eval=evh, shape=(2, 2), n_infinite=1)
    view = Sh[:, :]
    for i, j, n in np.ndindex(2, 2, 3):
        want = ("adj", ("val", j, i, n)) if i > j else ("val", i, j, n)
        if view[i, j, n] != want:
            fail("index", "view of a series whose lower blocks read its upper blocks returns a wrong entry", at=(i, j, n), got=repr(view[i, j, n]), want=want)
            break
    # self reference
    cases += 1
    R = BlockSeries(eval=lambda n: R[n], shape=(), n_infinite=1)
    try:
        R[1]
        fail("index", "self-referential definition did not raise RuntimeError")
    except RuntimeError:
        pass
    except RecursionError:
        fail("index", "self-referential definition recursed instead of raising RuntimeError")


# ------------------------------------------------------------------------------ C11 / C10
class Boom(BaseException):
    pass


def section_fault():
    global cases
    excs = [ValueError, RuntimeError, KeyboardInterrupt, RecursionError, Boom]

    def build(counter, trigger, exc):
        def base(n):
            counter[0] += 1
            if counter[0] == trigger:
                raise exc("injected")
            return n + 1
        A = BlockSeries(eval=base, shape=(), n_infinite=1, name="A")
        F = BlockSeries(eval=lambda n: (F[n - 1] + F[n - 2] + A[n]) if n > 1 else A[n], shape=(), n_infinite=1, name="F")
        return A, F

    ref_counter = [0]
    _, Fref = build(ref_counter, -1, ValueError)
    ref = [Fref[n] for n in range(7)]
    total = ref_counter[0]
    for exc in excs:
        for trigger in range(1, total + 1):
            cases += 1
            counter = [0]
            A, F = build(counter, trigger, exc)
            try:
                # the outermost request varies: single element, slice, list of orders, negative (wrapped) index on a finite axis is covered below
                req = (6, slice(None, 7), [6, 5], slice(4, 7))[trigger % 4]
                F[req]
                fail("fault", "injected exception did not reach the caller", exc=exc.__name__, trigger=trigger)
            except BaseException as e:  # noqa: BLE001
                ok = isinstance(e, exc) or (issubclass(exc, RuntimeError) and isinstance(e, RuntimeError))
                if not ok:
                    fail("fault", "a different exception reached the caller", exc=exc.__name__, trigger=trigger, got=repr(e))
            for ser in (A, F):
                stale = [k for k, v in ser._data.items() if repr(v) == "pending"]
                if stale:
                    fail("fault", "in-flight marker left behind after an exception", series=ser.name, exc=exc.__name__, trigger=trigger, keys=stale)
            try:
                got = [F[n] for n in range(7)]
                if got != ref:
                    fail("fault", "values after a fault differ from an undisturbed computation", exc=exc.__name__, trigger=trigger, got=got, want=ref)
            except BaseException as e:  # noqa: BLE001
                fail("fault", "series not reusable after a fault", exc=exc.__name__, trigger=trigger, error=repr(e))


    # a series with a finite axis: faults under slice / negative / multi-entry requests on that axis
    def build2(counter, trigger, exc):
        def ev(i, n):
            counter[0] += 1
            if counter[0] == trigger:
                raise exc("injected")
            return (i + 1) * (n + 2) if n == 0 else G[i, n - 1] + i
        G = BlockSeries(eval=ev, shape=(3,), n_infinite=1, name="G")
        return G
    c0 = [0]
    Gref = build2(c0, -1, ValueError)
    ref2 = {(i, n): Gref[i, n] for i in range(3) for n in range(4)}
    requests = [(-1, 3), (slice(None), 3), ([0, 2], 2), (slice(1, 3), slice(None, 4)), (2, slice(None, 4))]
    for exc in (ValueError, KeyboardInterrupt, RuntimeError):
        for req in requests:
            for trigger in range(1, 8):
                cases += 1
                counter = [0]
                G = build2(counter, trigger, exc)
                try:
                    G[req]
                    continue   # the trigger was not reached by this request
                except BaseException:  # noqa: BLE001
                    pass
                stale = [k for k, v in G._data.items() if repr(v) == "pending"]
                if stale:
                    fail("fault", "in-flight marker left behind after an exception", series="G", exc=exc.__name__, trigger=trigger, request=req, keys=stale)
                try:
                    got = {k: G[k] for k in ref2}
                    if got != ref2:
                        fail("fault", "values after a fault differ from an undisturbed computation", exc=exc.__name__, trigger=trigger, request=req)
                except BaseException as e:  # noqa: BLE001
                    fail("fault", "series not reusable after a fault", exc=exc.__name__, trigger=trigger, request=req, error=repr(e))

    # exceptions raised by the built-in Sylvester solver (blocks sharing an eigenvalue): an undisturbed computation raises on every request that
    # needs that solve, so must every retry on the same computation (the solver keeps a per-block-pair record of validated pairs)
    import numpy as _np
    from pymablock import block_diagonalize
    from pymablock.block_diagonalization import solve_sylvester_diagonal
    H0 = _np.diag([0.0, 1.0, 1.0, 2.0])
    H1 = _np.array([[0, 1, 2, 1], [1, 0, 1, 3], [2, 1, 0, 1], [1, 3, 1, 0]], dtype=float) / 4
    reqs = [(0, (0, 0, 2)), (1, (0, 1, 1)), (0, (0, 0, 2)), (2, (1, 0, 1)), (0, (1, 1, 2)), (1, (0, 1, 1))]
    for variant in ("default", "explicit"):
        def make():
            kw = {} if variant == "default" else {"solve_sylvester": solve_sylvester_diagonal((_np.array([0.0, 1.0]), _np.array([1.0, 2.0])))}
            return block_diagonalize([H0, H1], subspace_indices=[0, 0, 1, 1], **kw)

        def outcome(outs, which, idx):
            try:
                v = outs[which][idx]
                return "value"
            except BaseException as e:  # noqa: BLE001
                return type(e).__name__
        cases += 1
        try:
            same = make()
            got = [outcome(same, w, i) for w, i in reqs]
            want = [outcome(make(), w, i) for w, i in reqs]
            if got != want:
                fail("fault", "after the built-in solver raised, later requests on the same computation do not behave like an undisturbed computation",
                     variant=variant, got=got, want=want)
        except BaseException as e:  # noqa: BLE001
            fail("fault", "solver-exception scenario crashed", variant=variant, error=repr(e))

    # faults injected into the user callbacks of a whole block diagonalization: the Hamiltonian-term callback (scalar series split by subspace_indices,
    # block-shaped series used as is), the Sylvester solver and the multiplication of elements, at EVERY invocation index of the undisturbed run,
    # single and repeated, three exception classes; afterwards every request must return exactly the undisturbed value
    from pymablock.series import zero as _zero, one as _one
    from pymablock.block_diagonalization import operator_to_BlockSeries
    from pymablock.algorithm_parsing import series_computation
    from pymablock.algorithms import main as _main_algorithm
    Hs = {0: _np.diag([0.0, 1.0, 5.0, 7.0]),
          1: _np.array([[1, 2, 3, 1], [2, -1, 1, 2], [3, 1, 2, -1], [1, 2, -1, 1]], dtype=float),
          2: _np.array([[0, 1, -2, 1], [1, 2, 0, 3], [-2, 0, 1, 1], [1, 3, 1, -2]], dtype=float)}
    sched = [(nm, (i, j, n)) for n in range(4) for nm, (i, j) in (("H_tilde", (0, 0)), ("U", (0, 1)), ("H_tilde", (1, 1)), ("U_adj", (1, 0)), ("U", (0, 0)))]

    class Inj(Exception):
        pass

    class InjRT(RuntimeError):
        pass

    class InjKI(KeyboardInterrupt):
        pass

    class Run:
        def __init__(self, variant, fail_at=(), exc=None):
            self.calls, self.fail_at, self.exc, self.variant = 0, set(fail_at), exc, variant
            self.out = None

        def tick(self):
            self.calls += 1
            if self.calls in self.fail_at:
                raise self.exc("injected")

        def build(self):
            v = self.variant

            def term(n):
                if v in ("scalar-term", "all"):
                    self.tick()
                return Hs.get(n, _zero)

            def bterm(i, j, n):
                if v == "block-term":
                    self.tick()
                h = Hs.get(n)
                if h is None:
                    return _zero
                blk = h[2 * i:2 * i + 2, 2 * j:2 * j + 2]
                return _zero if not blk.any() else blk
            inner = solve_sylvester_diagonal((_np.array([0.0, 1.0]), _np.array([5.0, 7.0])))

            def solver(Y, index):
                if v in ("solver", "all"):
                    self.tick()
                return inner(Y, index)

            def mul(a, b):
                if v in ("operator", "all"):
                    self.tick()
                return a @ b
            kw = {}
            if v in ("solver", "all"):
                kw["solve_sylvester"] = solver
            if v == "block-term":
                H = BlockSeries(eval=bterm, shape=(2, 2), n_infinite=1, name="Hb")
                outs = block_diagonalize(H, **kw)
            elif v in ("operator", "all"):
                # block_diagonalize chooses the multiplication itself; a user-supplied one enters through series_computation, wired as block_diagonalize wires it
                Hsc = BlockSeries(eval=term, shape=(), n_infinite=1, name="Hs")
                H = operator_to_BlockSeries(Hsc, name="H", hermitian=True, subspace_indices=[0, 0, 1, 1])
                scope = {"solve_sylvester": solver, "use_linear_operator": _np.zeros((2, 2), dtype=bool), "two_block_optimized": True,
                         "commuting_blocks": [True, True]}
                outd, _ = series_computation({"H": H}, algorithm=_main_algorithm, scope=scope, operator=mul)
                outs = (outd["H_tilde"], outd["U"], outd["U†"])
            else:
                H = BlockSeries(eval=term, shape=(), n_infinite=1, name="Hs")
                outs = block_diagonalize(H, subspace_indices=[0, 0, 1, 1], **kw)
            self.out = dict(zip(("H_tilde", "U", "U_adj"), outs))

        def request(self, nm, idx):
            if self.out is None:
                self.build()
            return self.out[nm][idx]

    def same_exact(a, b):
        if a is _zero or b is _zero or a is _one or b is _one:
            return a is b
        return _np.shape(a) == _np.shape(b) and _np.array_equal(_np.asarray(a), _np.asarray(b))

    def chain_has(e, kind):
        seen = 0
        while e is not None and seen < 50:
            if isinstance(e, kind):
                return True
            e, seen = (e.__cause__ or e.__context__), seen + 1
        return False

    for variant in ("scalar-term", "block-term", "solver", "operator", "all"):
        try:
            clean = Run(variant)
            ref3 = {rq: clean.request(*rq) for rq in sched}
        except BaseException as e:  # noqa: BLE001
            fail("fault", "undisturbed block diagonalization with instrumented callbacks crashed", variant=variant, error=repr(e))
            continue
        total3 = clean.calls
        if total3 == 0:
            fail("fault", "vacuity: the instrumented callback was never invoked", variant=variant)
            continue
        for exc in (Inj, InjRT, InjKI):
            points = [(k,) for k in range(1, total3 + 1)] + [(k, k + 1 + (k % 3)) for k in range(1, total3, 3)]
            for pts in points:
                cases += 1
                run = Run(variant, pts, exc)
                bad = None
                raised = 0
                for rq in sched:
                    for _attempt in range(len(pts) + 1):
                        try:
                            val = run.request(*rq)
                        except BaseException as e:  # noqa: BLE001
                            if not chain_has(e, exc):
                                bad = f"a different exception reached the caller: {e!r}"
                                break
                            raised += 1
                            continue
                        if not same_exact(val, ref3[rq]):
                            bad = "value after a callback fault differs from the undisturbed computation"
                        break
                    else:
                        bad = "the fault is repeated although the callback no longer raises"
                    if bad:
                        fail("fault", bad, variant=variant, exc=exc.__name__, inject_at=list(pts), request=[rq[0], list(rq[1])])
                        break
                if not bad and run.out is not None:
                    for nm, ser in run.out.items():
                        stale = [k for k, v in ser._data.items() if repr(v) == "pending"]
                        if stale:
                            fail("fault", "in-flight marker left behind after a callback fault", variant=variant, series=nm, inject_at=list(pts), keys=stale)
                if not bad and raised < 1 and max(pts) <= total3 and min(pts) <= total3:
                    fail("fault", "injected exception did not reach the caller", variant=variant, exc=exc.__name__, inject_at=list(pts))


# ------------------------------------------------------------------------------ C18
def section_product():
    global cases
    rng = np.random.default_rng(0)

    def rnd(shape, cplx=True):
        a = rng.integers(-3, 4, size=shape)
        return (a + 1j * rng.integers(-3, 4, size=shape)) if cplx else a

    def mkseries(nb_rows, nb_cols, dims, ninf, maxo, sparsity, with_one=False):
        data = {}
        for i in range(nb_rows):
            for j in range(nb_cols):
                for n in itertools.product(range(maxo + 1), repeat=ninf):
                    if with_one and sum(n) == 0:
                        data[(i, j) + n] = one if i == j else zero
                    elif rng.random() < sparsity:
                        data[(i, j) + n] = zero
                    else:
                        data[(i, j) + n] = rnd((dims[0][i], dims[1][j]))
        return BlockSeries(data=data, shape=(nb_rows, nb_cols), n_infinite=ninf)

    def restyle(S, style):
        """the same series defined differently: all values as data; through an eval function given at construction; zeroth order as data and the
        eval function assigned after construction (the idiom for recurrently defined series: `S = BlockSeries(data=...); S.eval = f`)"""
        data = dict(S._data)
        ninf = S.n_infinite
        if style == "data":
            return BlockSeries(data=data, shape=S.shape, n_infinite=ninf)
        if style == "eval":
            return BlockSeries(eval=lambda *idx: data.get(idx, zero), shape=S.shape, n_infinite=ninf)
        T = BlockSeries(data={k: v for k, v in data.items() if sum(k[len(S.shape):]) == 0}, shape=S.shape, n_infinite=ninf)
        T.eval = lambda *idx: data.get(idx, zero)
        return T

    def dense(x, shp):
        if x is zero:
            return np.zeros(shp, dtype=complex)
        if x is one:
            return np.eye(shp[0], dtype=complex)
        return np.asarray(x, dtype=complex)

    def brute(fs, dimlist, i, j, n, ninf):
        # sum over intermediate blocks and order splittings
        nf = len(fs)
        total = np.zeros((dimlist[0][i], dimlist[nf][j]), dtype=complex)
        mids = [range(fs[k].shape[1]) for k in range(nf - 1)]
        orders = list(itertools.product(range(max(n, default=0) + 1), repeat=ninf))
        splits = [s for s in itertools.product(*([orders] * nf)) if tuple(map(sum, zip(*s))) == tuple(n)]
        for mid in itertools.product(*mids):
            blocks = (i,) + mid + (j,)
            for s in splits:
                term = np.eye(dimlist[0][i], dtype=complex)
                for k in range(nf):
                    term = term @ dense(fs[k][(blocks[k], blocks[k + 1]) + tuple(s[k])], (dimlist[k][blocks[k]], dimlist[k + 1][blocks[k + 1]]))
                total = total + term
        return total

    for ninf, maxo in ((1, 3), (2, 2), (0, 0), (3, 1)):      # (0, 0): series without infinite dimensions (a single element per block)
        for nf in (2, 3):
            for trial in range(3):
                nbs = [int(rng.integers(1, 3)) for _ in range(nf + 1)]
                dimlist = [[int(rng.integers(1, 3)) for _ in range(nb)] for nb in nbs]
                fs = [mkseries(nbs[k], nbs[k + 1], (dimlist[k], dimlist[k + 1]), ninf, maxo, 0.3) for k in range(nf)]
                for style in ("data", "eval", "late-eval"):
                    # the product is requested BEFORE any element of the factors has been evaluated; highest orders first
                    P = cauchy_dot_product(*[restyle(f, style) for f in fs])
                    for i in range(nbs[0]):
                        for j in range(nbs[-1]):
                            for n in reversed(list(itertools.product(range(maxo + 1), repeat=ninf))):
                                cases += 1
                                got = dense(P[(i, j) + n], (dimlist[0][i], dimlist[-1][j]))
                                want = brute(fs, dimlist, i, j, n, ninf)
                                if not np.allclose(got, want):
                                    fail("product", "cauchy_dot_product differs from the double sum", factors=nf, ninf=ninf, index=(i, j) + n, factors_defined_by=style)
    # bilinearity across magnitudes: factors given in very different units ((2^-40 A)(2^40 B) = A B exactly - powers of two - whatever the size of the entries;
    # also blocks all of whose entries are tiny but not zero)
    for ninf, maxo, scales in ((1, 2, (-40, 40)), (2, 1, (40, -40)), (1, 2, (-30, -30)), (1, 1, (-35, 0, 35)), (1, 2, (-60, -60))):
        nf = len(scales)
        nbs = [2] * (nf + 1)
        dimlist = [[2, 1] for _ in nbs]
        fs = [mkseries(2, 2, (dimlist[k], dimlist[k + 1]), ninf, maxo, 0.2, with_one=(k == 0 and scales[0] == 0)) for k in range(nf)]

        def scaled(S, e):
            return BlockSeries(data={k: (v if (v is zero or v is one) else v * 2.0 ** e) for k, v in S._data.items()}, shape=S.shape, n_infinite=S.n_infinite)
        for herm in (False,):
            P = cauchy_dot_product(*[scaled(f, e) for f, e in zip(fs, scales)], hermitian=herm)
            tot = 2.0 ** sum(scales)
            for i in range(2):
                for j in range(2):
                    for n in itertools.product(range(maxo + 1), repeat=ninf):
                        cases += 1
                        got = dense(P[(i, j) + n], (dimlist[0][i], dimlist[-1][j]))
                        want = brute(fs, dimlist, i, j, n, ninf) * tot
                        if not np.array_equal(got, want):
                            fail("product", "cauchy_dot_product is not bilinear across magnitudes: rescaling the factors by powers of two changes more than the scale of the product",
                                 scales=scales, ninf=ninf, index=(i, j) + n, got=np.abs(got).max(), want=np.abs(want).max())
    # hermitian=True on adjoint pairs, 2 and 3 factors, with `one` at zeroth order
    from sympy.physics.quantum import Dagger
    for ninf, maxo in ((1, 3), (2, 2)):
        nb = 2
        dims = [2, 1]
        A = mkseries(nb, nb, (dims, dims), ninf, maxo, 0.2, with_one=True)
        Ad = BlockSeries(eval=lambda *idx: (lambda v: v if v is zero or v is one else Dagger(v))(A[(idx[1], idx[0]) + tuple(idx[2:])]),
                         shape=(nb, nb), n_infinite=ninf)
        Hm = mkseries(nb, nb, (dims, dims), ninf, maxo, 0.2)
        Hh = BlockSeries(eval=lambda *idx: (lambda a, b: a if b is zero else (Dagger(b) if a is zero else a + Dagger(b)))(Hm[idx], Hm[(idx[1], idx[0]) + tuple(idx[2:])]),
                         shape=(nb, nb), n_infinite=ninf)
        for fs in ((Ad, A), (Ad, Hh, A)):
            P0 = cauchy_dot_product(*fs, hermitian=False)
            P1 = cauchy_dot_product(*fs, hermitian=True)
            for i in range(nb):
                for j in range(nb):
                    for n in itertools.product(range(maxo + 1), repeat=ninf):
                        cases += 1
                        a, b = P0[(i, j) + n], P1[(i, j) + n]
                        if not np.allclose(dense(a, (dims[i], dims[j])), dense(b, (dims[i], dims[j]))):
                            fail("product", "hermitian=True changes a value of a Hermitian product of adjoint pairs", factors=len(fs), index=(i, j) + n)
    # the same with OBJECT-dtype element arrays holding exact complex numbers (Python complex, sympy numbers): the adjoint of a term conjugates whatever the dtype says
    import sympy as _spo
    for ename, conv in (("python complex in object arrays", lambda v: v.astype(object)),
                        ("sympy numbers in object arrays", lambda v: np.array([[_spo.Integer(int(x.real)) + _spo.I * int(x.imag) for x in row] for row in v], dtype=object))):
        ninf, maxo, nb, dims = 1, 3, 2, [2, 1]
        A0 = mkseries(nb, nb, (dims, dims), ninf, maxo, 0.2, with_one=True)
        A = BlockSeries(data={k: (v if (v is zero or v is one) else conv(np.asarray(v))) for k, v in A0._data.items()}, shape=(nb, nb), n_infinite=ninf)
        Ad = BlockSeries(eval=lambda *idx: (lambda v: v if v is zero or v is one else v.conj().T)(A[(idx[1], idx[0]) + tuple(idx[2:])]), shape=(nb, nb), n_infinite=ninf)
        P0 = cauchy_dot_product(Ad, A, hermitian=False)
        P1 = cauchy_dot_product(Ad, A, hermitian=True)
        for i in range(nb):
            for j in range(nb):
                for n in itertools.product(range(maxo + 1), repeat=ninf):
                    cases += 1
                    a, b = P0[(i, j) + n], P1[(i, j) + n]

                    def num(x, shp):
                        if x is zero:
                            return np.zeros(shp, dtype=complex)
                        if x is one:
                            return np.eye(shp[0], dtype=complex)
                        return np.array([[complex(y) for y in row] for row in np.asarray(x)], dtype=complex)
                    if not np.array_equal(num(a, (dims[i], dims[j])), num(b, (dims[i], dims[j]))):
                        fail("product", "hermitian=True changes a value of a Hermitian product of adjoint pairs (object-dtype elements)", elements=ename, index=(i, j) + n)
    # laziness: an order of a factor is requested only if the complementary element is present
    cases += 1
    logA, logB = [], []
    Az = BlockSeries(eval=lambda i, j, n: (logA.append(n), zero if n > 0 else np.eye(1))[1], shape=(1, 1), n_infinite=1)
    Bz = BlockSeries(eval=lambda i, j, n: (logB.append(n), np.eye(1) * (n + 1))[1], data={(0, 0, 0): zero}, shape=(1, 1), n_infinite=1)
    cauchy_dot_product(Az, Bz)[0, 0, 3]
    if 3 in logA:
        fail("product", "highest order of the first factor requested although the zeroth order of the second is zero", logA=logA)


# ------------------------------------------------------------------------------ C12 / C10 through block_diagonalize
def _lazy_problem(hermitian=True, nparam=2, symbols=None, recursive=False, blocked=False, h0_diag=(0.0, 1.0, 3.0, 4.5)):
    """symbols: names given to block_diagonalize that differ from the series' own dimension names; recursive: the user's eval builds order n from
    its own lower orders (read through the series, i.e. through its cache); blocked: the series is given with a 2x2 block structure."""
    from pymablock import block_diagonalize
    rng = np.random.default_rng(5)
    n = 4
    h0 = np.diag(list(h0_diag))
    terms = {}

    def term(order):
        if order not in terms:
            r = np.random.default_rng(1000 + sum((k + 1) * 17 ** k * o for k, o in enumerate(order)))  # deterministic per order
            m = r.normal(size=(n, n)) + 1j * r.normal(size=(n, n))
            terms[order] = (m + m.conj().T) if hermitian else m
        return terms[order]
    log = []

    def full(order):
        if sum(order) == 0:
            return h0
        if max(order) > 2:
            return zero
        t = term(order)
        if recursive and order[0] > 0:
            prev = Hfull[(order[0] - 1,) + tuple(order[1:])]     # the user's own series, read through its cache
            if prev is not zero:
                t = t + 0.25 * prev
        return t

    def ev(*order):
        log.append(order)
        return full(order)
    kw = {"symbols": symbols} if symbols is not None else {}
    if not blocked:
        H = Hfull = BlockSeries(eval=ev, shape=(), n_infinite=nparam)
        out = block_diagonalize(H, subspace_indices=[0, 0, 1, 1], hermitian=hermitian, **kw)
        return H, out, log, terms
    Hfull = BlockSeries(eval=lambda *order: full(order), shape=(), n_infinite=nparam)

    def evb(i, j, *order):
        log.append((i, j) + order)
        if hermitian and i > j and sum(order):
            up = H[(j, i) + order]                               # lower blocks from the user's own upper blocks
            return zero if up is zero else up.conj().T
        m = Hfull[order]
        if m is zero or (i != j and not sum(order)):
            return zero
        return m[2 * i:2 * i + 2, 2 * j:2 * j + 2]
    H = BlockSeries(eval=evb, shape=(2, 2), n_infinite=nparam)
    out = block_diagonalize(H, hermitian=hermitian, **kw)
    return H, out, log, terms


def section_lazy():
    global cases
    import sympy as _sp
    variants = [dict(), dict(symbols=[_sp.Symbol("alpha"), _sp.Symbol("beta")]), dict(recursive=True), dict(recursive=True, symbols=[_sp.Symbol("alpha"), _sp.Symbol("beta")]),
                dict(blocked=True), dict(blocked=True, symbols=[_sp.Symbol("alpha"), _sp.Symbol("beta")]), dict(blocked=True, recursive=True, symbols=[_sp.Symbol("p"), _sp.Symbol("q")]),
                # an identically zero block of H_0 (a degenerate zero-energy subspace): its size is not visible in the zeroth-order term
                dict(h0_diag=(0.0, 0.0, 2.0, 4.0)), dict(h0_diag=(2.0, 4.0, 0.0, 0.0), blocked=True), dict(h0_diag=(0.0, 0.0, 2.0, 4.0), recursive=True, symbols=[_sp.Symbol("p"), _sp.Symbol("q")])]
    for hermitian, var in [(h, v) for h in (True, False) for v in variants]:
        try:
            H, (Ht, U, Ud), log, terms = _lazy_problem(hermitian, **var)
        except Exception as e:
            fail("lazy", "block_diagonalize raised for a lazily defined series", hermitian=hermitian, variant={k: str(v) for k, v in var.items()}, error=repr(e)[:300])
            continue
        blocked = bool(var.get("blocked"))
        if blocked:
            # bring the log to order tuples; the same block may not be evaluated twice
            if len(set(log)) != len(log):
                fail("lazy", "Hamiltonian block evaluated more than once at definition time", hermitian=hermitian, variant=str(var))
        cases += 1
        strip = (lambda o: o[2:]) if blocked else (lambda o: o)
        if any(sum(strip(o)) for o in log):
            fail("lazy", "defining the block diagonalization evaluated a non-zeroth-order Hamiltonian term", hermitian=hermitian, evaluated=log, variant=str(var))
        requests = [(Ht, (0, 0, 1, 0)), (U, (0, 1, 1, 1)), (Ht, (0, 0, [2, 0], [0, 2])), (Ud, (1, 0, slice(None, 2), 1)), (Ht, (1, 1, 2, 1))]
        for ser, item in requests:
            cases += 1
            before = list(log)
            ser[item]
            new = log[len(before):]
            req = []
            o1, o2 = item[2], item[3]
            box = np.empty((4, 4), dtype=object)
            for a in range(4):
                for b in range(4):
                    box[a, b] = (a, b)
            req = np.atleast_1d(np.asarray(box[o1, o2], dtype=object)).ravel().tolist() if not isinstance(box[o1, o2], tuple) else [box[o1, o2]]
            for m in new:
                if not any(all(mi <= ri for mi, ri in zip(strip(m), r)) for r in req):
                    fail("lazy", "Hamiltonian term evaluated at an order not below any requested order", hermitian=hermitian, request=item, evaluated=m, variant=str(var))
            if len(set(log)) != len(log):
                fail("lazy", "Hamiltonian term evaluated more than once", hermitian=hermitian, request=item, evaluated=log, variant=str(var))
        # the caller reads the series afterwards: still at most once per term
        cases += 1
        for o in ([(1, 0), (0, 1), (1, 1)] if not blocked else [(0, 1, 1, 0), (1, 0, 1, 0), (0, 0, 0, 1)]):
            H[o]
        if len(set(log)) != len(log):
            fail("lazy", "Hamiltonian term evaluated again when the caller reads the series it passed in", hermitian=hermitian, variant=str(var))
    _lazy_secondq()


def _lazy_secondq():
    """second-quantized (operator-valued) lazily defined Hamiltonians with two parameters: scalar expressions and matrix-valued terms split by subspace_indices"""
    global cases
    import sympy as _sp
    from sympy.physics.quantum import Dagger as _Dg
    from sympy.physics.quantum.boson import BosonOp as _Bos
    from pymablock import block_diagonalize
    a, b = _Bos("a"), _Bos("b")
    w, wb, dl = _sp.symbols("omega omega_b Delta", positive=True)
    problems = {
        "two boson modes": ({(0, 0): w * _Dg(a) * a + wb * _Dg(b) * b, (1, 0): _Dg(a) * b + _Dg(b) * a, (0, 1): _Dg(a) + a, (2, 0): _Dg(b) * b, (1, 1): _Dg(b) + b}, {},
                            [(0, (0, 0), (2, 0)), (0, (0, 0), (0, 2)), (1, (0, 0), (1, 1))]),
        "spin coupled to a boson mode": ({(0, 0): _sp.Matrix([[w * _Dg(a) * a, 0], [0, w * _Dg(a) * a + dl]]), (1, 0): _sp.Matrix([[0, a], [_Dg(a), 0]]),
                                          (0, 1): _sp.Matrix([[_Dg(a) + a, 0], [0, -_Dg(a) - a]]), (0, 2): _sp.Matrix([[_Dg(a) * a, 0], [0, 0]])}, {"subspace_indices": [0, 1]},
                                         [(0, (0, 0), (2, 0)), (0, (1, 1), (0, 2)), (1, (0, 1), (1, 0))]),
    }
    for name, (terms, kw, requests) in problems.items():
        cases += 1
        log = []

        def ev(*order, terms=terms, log=log):
            log.append(tuple(int(x) for x in order))
            return terms.get(tuple(int(x) for x in order), zero)
        try:
            H = BlockSeries(eval=ev, shape=(), n_infinite=2)
            outs = block_diagonalize(H, **kw)
            if any(sum(o) for o in log):
                fail("lazy", "second-quantized input: defining the block diagonalization evaluated a non-zeroth-order Hamiltonian term", model=name, evaluated=log)
            for which, blk, order in requests:
                n0 = len(log)
                outs[which][blk + order]
                for m in log[n0:]:
                    if not all(mi <= ri for mi, ri in zip(m, order)):
                        fail("lazy", "second-quantized input: Hamiltonian term evaluated at an order not below the requested order", model=name, request=(which, blk, order), evaluated=m)
                if len(set(log)) != len(log):
                    fail("lazy", "second-quantized input: Hamiltonian term evaluated more than once", model=name, evaluated=log)
        except Exception as e:  # noqa: BLE001
            fail("lazy", "second-quantized lazily defined input raised", model=name, error=repr(e)[:300])


def section_history():
    global cases
    import random
    for hermitian in (True, False):
        _, fresh, _, _ = _lazy_problem(hermitian, nparam=1)
        ref = {}
        idxs = [(s, i, j, n) for s in range(3) for i in range(2) for j in range(2) for n in range(4)]
        for s, i, j, n in idxs:
            _, out, _, _ = _lazy_problem(hermitian, nparam=1)
            ref[(s, i, j, n)] = out[s][i, j, n]
        import os as _os
        _th = _os.environ.get("VERIF_TIER", "quick") == "thorough"
        _base = 100 * int(_os.environ.get("VERIF_SEED", "0") or 0) if _th else 0
        for seed in range(_base, _base + (16 if _th else 4)):
            cases += 1
            _, out, _, _ = _lazy_problem(hermitian, nparam=1)
            rnd = random.Random(seed)
            order = idxs[:]
            rnd.shuffle(order)
            held = {}
            for s, i, j, n in order:
                v = out[s][i, j, n]
                held[(s, i, j, n)] = (v, None if (v is zero or v is one) else np.array(v, copy=True))
                w = ref[(s, i, j, n)]
                same = (v is w) if (v is zero or v is one or w is zero or w is one) else np.allclose(np.asarray(v), np.asarray(w), atol=1e-9)
                if not same:
                    fail("history", "value depends on the request history", hermitian=hermitian, seed=seed, index=(s, i, j, n))
            # the caller's own unitarity check: a product declared Hermitian whose factors start with the identity sentinel
            if hermitian:
                from pymablock.series import cauchy_dot_product
                chk = cauchy_dot_product(out[2], out[1], hermitian=True)
                for i in range(2):
                    for n in range(4):
                        chk[i, i, n]
                        chk[i, 1 - i, n]
            for k, (v, cp) in held.items():
                if cp is not None and not np.array_equal(np.asarray(v), cp):
                    fail("history", "a value already handed to the caller was modified by a later evaluation", hermitian=hermitian, seed=seed, index=k)


def section_history_illposed():
    """The outcome of a first-order request (value or class of the exception) on a problem whose blocks share an unperturbed energy is the one
    of a fresh computation, whatever other first-order (and well-posed-parameter) requests came before: a first-order off-diagonal element
    is defined by the solver from H_0 and the term itself, so no cached zero can make it unnecessary.  4 levels, 2 blocks, 2 parameters,
    levels 1 and 2 degenerate across the blocks; term x couples only non-degenerate levels, term y couples the degenerate pair."""
    global cases
    import itertools
    import warnings
    from scipy import sparse as _sps
    from pymablock import block_diagonalize

    def mk(hermitian, conv):
        h0 = np.diag([0.0, 1.0, 1.0, 3.0])
        hx = np.zeros((4, 4))
        hx[0, 2] = hx[2, 0] = 1
        hx[1, 3] = hx[3, 1] = 1
        hy = np.zeros((4, 4))
        hy[1, 2] = hy[2, 1] = 1
        with warnings.catch_warnings():
            warnings.simplefilter("ignore")
            return block_diagonalize([conv(h0), conv(hx), conv(hy)], subspace_indices=[0, 0, 1, 1], hermitian=hermitian)

    def outcome(out, req):
        s, idx = req
        try:
            with warnings.catch_warnings():
                warnings.simplefilter("ignore")
                v = out[s][idx]
        except Exception as e:  # noqa: BLE001
            return type(e).__name__, None
        return "value", (None if (v is zero or v is one) else (v.toarray() if _sps.issparse(v) else np.array(v)))

    first = [(1, (0, 1, 1, 0)), (1, (0, 1, 0, 1)), (2, (1, 0, 0, 1)), (1, (1, 0, 1, 0)), (0, (0, 1, 0, 1))]
    prelude = [(0, (0, 0, 2, 0)), (0, (1, 1, 2, 0))]
    for hermitian in (True, False):
        for cname, conv in (("dense", lambda x: x), ("csr", _sps.csr_array), ("coo", _sps.coo_array)):
            fresh = {r: outcome(mk(hermitian, conv), r) for r in first}
            for hist in itertools.chain(itertools.permutations(first, 2), ((p, a, b) for p in prelude for a, b in itertools.permutations(first[:3], 2))):
                cases += 1
                out = mk(hermitian, conv)
                for r in hist[:-1]:
                    outcome(out, r)
                got = outcome(out, hist[-1])
                want = fresh[hist[-1]]
                same = got[0] == want[0] and ((got[1] is None) == (want[1] is None)) and (got[1] is None or np.allclose(got[1], want[1], atol=1e-9))
                if not same:
                    fail("history_illposed", "the outcome of a first-order request differs from the one of a fresh computation", hermitian=hermitian, storage=cname,
                         history=[list(map(int, (s, *i))) for s, i in hist[:-1]], request=list(map(int, (hist[-1][0], *hist[-1][1]))), fresh=want[0], got=got[0])


def section_herm_flag_finding():
    """Witness of known finding F-H: a Hermitian product of factors that are not adjoints of each other."""
    global cases
    cases += 1
    X = np.array([[0, 1], [1, 0]], dtype=complex)
    Y = np.array([[1, 2], [2, -1]], dtype=complex)
    one2 = np.eye(2, dtype=complex)
    A = BlockSeries(data={(0, 0, 0): one2, (0, 0, 1): 1j * X}, shape=(1, 1), n_infinite=1)
    # B = (1 - i lam X)(1 + lam Y) truncated consistently: B0 = 1, B1 = Y - iX, B2 = -i X Y ; A B = 1 + lam Y + lam^2 (XX) - ... (order 1 is Hermitian)
    B = BlockSeries(data={(0, 0, 0): one2, (0, 0, 1): Y - 1j * X}, shape=(1, 1), n_infinite=1)
    p0 = cauchy_dot_product(A, B, hermitian=False)[0, 0, 1]
    p1 = cauchy_dot_product(A, B, hermitian=True)[0, 0, 1]
    if not np.allclose(p0, p0.conj().T):
        fail("herm_flag_finding", "battery error: the order-1 product is not Hermitian")
    if not np.allclose(p0, p1):
        fail("herm_flag_finding", "hermitian=True changes the (Hermitian) order-1 element of a product whose factors are not adjoint pairs", plain=p0.tolist(), flagged=p1.tolist())


for name in sections:
    try:
        globals()["section_" + name]()
    except Exception as e:  # a crash of the battery itself is reported, not hidden
        import traceback
        fail(name, "battery section crashed", error=traceback.format_exc()[-800:])
print(json.dumps({"cases": cases, "failures": failures}))
sys.exit(1 if failures else 0)
