"""Native bounded battery for C09: the programs of contracts/dsl_corpus.py are compiled and run by the repository's `series_computation`
and every element of every series (outputs, intermediates whose terms are deleted after use, declared products) is compared with a direct,
unoptimised interpretation of the definition read by the independent reader leanalg/extract.py - under several request schedules
(ascending, descending with off-diagonal blocks first, shuffled with repetitions, intermediates before outputs).

Usage: python dsl_battery.py <repo-path> [programs]          Bounds: 2-3 blocks of sizes 1-3, 1-2 parameters, total order <= 3, fixed seeds.
Inputs vanish at zeroth order (so that the declared Cauchy products are well founded); values are small Gaussian integers.
"""
import itertools
import json
import os
import random
import sys
import warnings

repo = sys.argv[1] if len(sys.argv) > 1 else "/repo"
only = sys.argv[2].split(",") if len(sys.argv) > 2 and sys.argv[2] != "all" else None
ROOT = __file__.rsplit("/replay/", 1)[0]
sys.path.insert(0, repo)
sys.path.insert(1, ROOT)
warnings.simplefilter("ignore")
import numpy as np  # noqa: E402
import importlib.util  # noqa: E402

from pymablock.algorithm_parsing import series_computation  # noqa: E402
from pymablock.series import BlockSeries, zero, one  # noqa: E402
from leanalg import extract  # noqa: E402

THOROUGH = os.environ.get("VERIF_TIER", "quick") == "thorough"
SEED = int(os.environ.get("VERIF_SEED", "0") or 0) if THOROUGH else 0
CORPUS = os.path.join(ROOT, "contracts", "dsl_corpus.py")
failures, cases = [], 0


def fail(what, **kw):
    if len(failures) < 12:
        failures.append(dict(section=(sys.argv[2] if len(sys.argv) > 2 else "all"), what=what, **{k: repr(v)[:300] for k, v in kw.items()}))


def load_corpus():
    global CORPUS
    if only and len(only) == 1 and only[0].startswith("gen:"):       # gen:<seed>:<count>: the generated family instead of the hand-written corpus
        from contracts import dsl_gen
        _g, seed, count = only[0].split(":")
        CORPUS = dsl_gen.module_path(int(seed), int(count))
    spec = importlib.util.spec_from_file_location("dsl_corpus_native", CORPUS)
    mod = importlib.util.module_from_spec(spec)
    spec.loader.exec_module(mod)
    import ast
    names = [n.name for n in ast.parse(open(CORPUS, encoding="utf8").read()).body if isinstance(n, ast.FunctionDef)]
    return mod, names


# ---- scope functions: deterministic, index dependent, shape preserving; diag / offdiag keep Hermiticity
def _val(x, index):
    return x[index] if isinstance(x, BlockSeries) else x


def f(x, index):
    x = _val(x, index)
    return zero if x is zero else (1 + index[0] + 2 * index[1]) * x


def g(x, index):
    x = _val(x, index)
    return zero if x is zero else (2 + sum(index[2:])) * x


def _mask(shape, off):
    a, b = np.indices(shape)
    return 1.0 + ((a + b + off) % 2)


def diag(x, index):
    x = _val(x, index)
    return zero if x is zero else x * _mask(x.shape, 0)


def offdiag(x, index):
    x = _val(x, index)
    return zero if x is zero else x * _mask(x.shape, 1) * 3


class Direct:
    """direct interpretation of the extracted definition"""

    def __init__(self, alg, sizes, ninf, inputs, scope):
        self.alg, self.sizes, self.ninf, self.inputs, self.scope = alg, sizes, ninf, inputs, scope
        self.sdefs = alg.series_by_name()
        self.pdefs = {p.name: p for p in alg.products}
        self.memo = {}

    def zeros(self, i, j):
        return np.zeros((self.sizes[i], self.sizes[j]), dtype=complex)

    def val(self, name, i, j, n):
        key = (name, i, j, n)
        if key not in self.memo:
            self.memo[key] = self._val(name, i, j, n)
        return self.memo[key]

    def _val(self, name, i, j, n):
        if name in self.inputs:
            v = self.inputs[name](i, j, n)
            return self.zeros(i, j) if v is zero else v
        if name in self.pdefs:
            fac = self.pdefs[name].terms
            return self.product(fac, i, j, n)
        sd = self.sdefs[name]
        if sum(n) == 0:
            if sd.start == 0:
                return self.zeros(i, j)
            if sd.start == 1 and i == j:
                return np.eye(self.sizes[i], dtype=complex)
            if isinstance(sd.start, str):          # start = "<input>_0": the zeroth order of an input series
                return self.val(sd.start[:-2], i, j, n)
        if sd.marker is not None and i > j:
            v = self.val(name, j, i, n).conj().T
            return -v if sd.marker == "antihermitian" else v
        total = self.zeros(i, j)
        idx = (i, j) + tuple(n)
        for cond, e in sd.clauses:
            if cond is None:
                total = total + self.E(e, i, j, n)
            elif cond == "diagonal":
                if i == j:
                    total = total + self.scope["diag"](self.E(e, i, j, n), idx)
            elif cond == "offdiagonal":
                if i != j:
                    total = total + self.E(e, i, j, n)
                elif self.scope.get("offdiag") is not None:
                    total = total + self.scope["offdiag"](self.E(e, i, j, n), idx)
            elif cond == "lower":
                if i > j:
                    total = total + self.E(e, i, j, n)
        return total

    def product(self, fac, i, j, n):
        if len(fac) == 1:
            return self.val(fac[0], i, j, n)
        total = self.zeros(i, j)
        for k in range(len(self.sizes)):
            for m in itertools.product(*[range(x + 1) for x in n]):
                rest = tuple(a - b for a, b in zip(n, m))
                # the factor of lower order first; a vanishing factor ends the term (this is what makes C = ... + "C @ A" well founded when A_0 = 0)
                if sum(m) <= sum(rest):
                    a = self.val(fac[0], i, k, m)
                    if not a.any():
                        continue
                    b = self.product(fac[1:], k, j, rest)
                else:
                    b = self.product(fac[1:], k, j, rest)
                    if not b.any():
                        continue
                    a = self.val(fac[0], i, k, m)
                total = total + a @ b
        return total

    def E(self, e, i, j, n):
        k = e[0]
        idx = (i, j) + tuple(n)
        if k == "term":
            return self.val(e[1], j, i, n).conj().T if e[2] else self.val(e[1], i, j, n)
        if k == "zero":
            return self.zeros(i, j)
        if k == "neg":
            return -self.E(e[1], i, j, n)
        if k == "add":
            return self.E(e[1], i, j, n) + self.E(e[2], i, j, n)
        if k == "sub":
            return self.E(e[1], i, j, n) - self.E(e[2], i, j, n)
        if k == "div":
            return self.E(e[1], i, j, n) / e[2]
        if k == "scale":
            return e[2] * self.E(e[1], i, j, n)
        if k == "call":
            return self.scope[e[1]](self.E(e[2], i, j, n), idx)
        if k == "callseries":
            return self.scope[e[1]](self.val(e[2], i, j, n), idx)
        if k == "ifflag":
            flag = e[1]
            c = self.scope[flag[1]] if flag[0] == "name" else self.scope[flag[1]][i]
            return self.E(e[2], i, j, n) if c else self.E(e[3], i, j, n)
        raise ValueError(k)


def make_input(sizes, ninf, seed, nonzero_start=False):
    cache = {}

    def value(i, j, n):
        if sum(n) == 0 and not nonzero_start:
            return zero
        key = (i, j, tuple(n))
        if key not in cache:
            r = np.random.default_rng([seed, i, j, *n])
            if r.random() < 0.15:
                cache[key] = zero
            else:
                cache[key] = (r.integers(-3, 4, size=(sizes[i], sizes[j])) + 1j * r.integers(-3, 4, size=(sizes[i], sizes[j]))).astype(complex)
        return cache[key]
    return value


def run_program(mod, name, sizes, ninf, maxtot, seed, schedule, have_offdiag, flags):
    global cases
    cases += 1
    alg = extract.read_algorithm(name, path=CORPUS)
    defined = {s.name for s in alg.series} | {p.name for p in alg.products}
    used = {t for s in alg.series for _c, e in s.clauses for t, _a in extract.terms_of(e)} | {t for p in alg.products for t in p.terms}
    in_names = sorted(used - defined)
    nb = len(sizes)
    # inputs vanish at zeroth order (well-founded products) except those used as start values ("<name>_0"), which must not be product factors
    starts = {s.start[:-2] for s in alg.series if isinstance(s.start, str)}
    in_names = sorted(set(in_names) | starts | {"A"})      # series_computation needs at least one input series to learn the shape
    values = {nm: make_input(sizes, ninf, seed + 17 * q, nonzero_start=nm in starts) for q, nm in enumerate(in_names)}
    inputs = {nm: (lambda v: (lambda i, j, n: v(i, j, n)))(values[nm]) for nm in in_names}
    scope = {"f": f, "g": g, "diag": diag, "offdiag": offdiag if have_offdiag else None, "two_block_optimized": flags[0], "commuting_blocks": list(flags[1][:nb])}
    series_in = {nm: BlockSeries(eval=(lambda v: (lambda *idx: v(idx[0], idx[1], idx[2:])))(values[nm]), shape=(nb, nb), n_infinite=ninf, name=nm) for nm in in_names}
    label = dict(program=name, sizes=sizes, ninf=ninf, schedule=schedule, offdiag=have_offdiag, flags=flags)
    try:
        series, _lo = series_computation(series_in, getattr(mod, name), scope=dict(scope))
    except Exception as ex:
        fail("series_computation raised while compiling", error=repr(ex)[:300], **label)
        return
    ref = Direct(alg, sizes, ninf, inputs, scope)
    orders = [o for o in itertools.product(range(maxtot + 1), repeat=ninf) if sum(o) <= maxtot]
    blocks = [(i, j) for i in range(nb) for j in range(nb)]
    outputs = list(alg.outputs)
    inter = [s.name for s in alg.series if s.name not in outputs] + [p.name for p in alg.products]
    reqs = [(nm, b, o) for nm in outputs + inter for o in orders for b in blocks]
    rnd = random.Random(seed)
    if schedule == "descending-offdiagonal-first":
        reqs = [(nm, b, o) for nm in outputs + inter for o in reversed(orders) for b in sorted(blocks, key=lambda b: b[0] == b[1])]
    elif schedule == "shuffled-with-repeats":
        reqs = reqs + rnd.sample(reqs, len(reqs) // 2)
        rnd.shuffle(reqs)
    elif schedule == "intermediates-first":
        reqs = [(nm, b, o) for nm in inter + outputs for o in orders for b in blocks]
    if schedule == "batched":
        # ONE request per (series, block) for all orders at once (a slice for one parameter, paired lists for several): intermediate series are deleted while later elements of
        # the same request are evaluated - the request must still return every element it was asked for
        for nm in inter + outputs:
            if nm not in series:
                fail("series missing from the result of series_computation", name=nm, **label)
                return
            for (i, j) in blocks:
                item = (i, j, slice(None, maxtot + 1)) if ninf == 1 else (i, j) + tuple([o[k] for o in orders] for k in range(ninf))
                olist = [(k,) for k in range(maxtot + 1)] if ninf == 1 else orders
                try:
                    arr = series[nm][item]
                except Exception as ex:
                    fail("a request of several elements at once raised", name=nm, index=repr(item)[:120], error=repr(ex)[:300], **label)
                    return
                data, mask = np.ma.getdata(arr), np.ma.getmaskarray(arr)
                if data.shape != (len(olist),):
                    fail("a request of several elements at once has the wrong shape", name=nm, index=repr(item)[:120], shape=data.shape, **label)
                    return
                for pos, o in enumerate(olist):
                    got = zero if mask[pos] else data[pos]
                    want = ref.val(nm, i, j, tuple(o))
                    gotm = np.zeros_like(want) if got is zero else (np.eye(sizes[i], dtype=complex) if got is one else np.asarray(got))
                    if gotm.shape != want.shape or np.abs(gotm - want).max(initial=0) > 1e-9 * max(1.0, np.abs(want).max(initial=0)):
                        fail("an element of a request of several elements differs from the direct interpretation of its definition", name=nm, index=(i, j) + tuple(o), **label)
                        return
        return
    for nm, (i, j), o in reqs:
        if nm not in series:
            fail("series missing from the result of series_computation", name=nm, **label)
            return
        try:
            got = series[nm][(i, j) + tuple(o)]
        except Exception as ex:
            fail("requesting an element raised", name=nm, index=(i, j) + tuple(o), error=repr(ex)[:300], **label)
            return
        want = ref.val(nm, i, j, tuple(o))
        if got is zero:
            gotm = np.zeros_like(want)
        elif got is one:
            gotm = np.eye(sizes[i], dtype=complex)
        else:
            gotm = np.asarray(got)
        if gotm.shape != want.shape or np.abs(gotm - want).max(initial=0) > 1e-9 * max(1.0, np.abs(want).max(initial=0)):
            fail("compiled series differs from the direct interpretation of its definition", name=nm, index=(i, j) + tuple(o),
                 err=float(np.abs(gotm - want).max(initial=0)) if gotm.shape == want.shape else "shape", **label)
            return


def main():
    mod, names = load_corpus()
    if only and not only[0].startswith("gen:"):
        names = [n for n in names if n in only]
    schedules = ["ascending", "descending-offdiagonal-first", "shuffled-with-repeats", "intermediates-first", "batched"]
    layouts = [((2, 2), 1, 3), ((2, 3), 1, 3), ((1, 2, 2), 1, 2), ((2, 3), 2, 2)]
    if THOROUGH:
        layouts += [((3, 1, 2), 2, 2), ((2, 2, 1, 1), 1, 2)]
    for name in names:
        for q, (sizes, ninf, maxtot) in enumerate(layouts):
            for sc in schedules:
                for have_offdiag in (True, False):
                    flags = (q % 2 == 1, [True, False, True, False] if q % 2 == 0 else [False, True, True, False])
                    try:
                        run_program(mod, name, sizes, ninf, maxtot, 100 * q + 7 + SEED, sc, have_offdiag, flags)
                    except Exception:
                        import traceback
                        fail("battery crashed", program=name, error=traceback.format_exc()[-600:])
    print(json.dumps({"cases": cases, "failures": failures}))
    sys.exit(1 if failures else 0)


if __name__ == "__main__":
    main()
