"""Native bounded battery for the relational properties of block_diagonalize (C06, C13, C14, C15).

Not a deciding step: replay source and labelled bounded stand-in.
Usage: python rel_battery.py <repo-path> <section>[,<section>...]
Sections: multi, covariance, formats, implicit
Bounds: matrices of size <= 12 (formats: one case of size 24 with interleaved labels), <= 3 blocks, <= 3 parameters,
total order <= 3, fixed seeds.  Every comparison is between two runs of the real block_diagonalize on related
inputs (or against L^dagger A R computed with numpy), at tolerance 1e-8 relative to the size of the values.
"""
import itertools
import json
import os
import sys
import warnings

sys.path.insert(0, os.path.dirname(os.path.abspath(__file__)))
import bd_battery as B  # noqa: E402  (reads the repository path from argv like this script)
import numpy as np  # noqa: E402
import sympy  # noqa: E402
from scipy import sparse  # noqa: E402

from pymablock import block_diagonalize  # noqa: E402
from pymablock.series import zero, one, BlockSeries  # noqa: E402
from pymablock.block_diagonalization import operator_to_BlockSeries  # noqa: E402

sections = (sys.argv[2] if len(sys.argv) > 2 else "multi,covariance,formats").split(",")
failures = []
cases = 0
Problem, dense, orders_upto = B.Problem, B.dense, B.orders_upto


def fail(section, what, **kw):
    if len(failures) < 40:
        failures.append(dict(section=section, what=what, **{k: repr(v)[:400] for k, v in kw.items()}))


def run(pb, ham=None, **kw):
    return block_diagonalize(pb.hamiltonian() if ham is None else ham, subspace_indices=pb.sub, hermitian=pb.hermitian, **kw)


def full(idx, S, o):
    """Assemble the full matrix of a block series at multi-order o; idx = list of state lists per block."""
    n = sum(len(x) for x in idx)
    out = np.zeros((n, n), dtype=complex)
    for i in range(len(idx)):
        for j in range(len(idx)):
            out[np.ix_(idx[i], idx[j])] = dense(desym(S[(i, j) + tuple(o)]), (len(idx[i]), len(idx[j])))
    return out


def desym(x):
    """Numeric value of a (possibly symbolic) block with every perturbation symbol set to 1."""
    if isinstance(x, sympy.MatrixBase) and x.free_symbols:
        return x.subs({q: 1 for q in x.free_symbols})
    return x


def close(a, b, tol=1e-8):
    return np.abs(a - b).max(initial=0) <= tol * max(1.0, np.abs(a).max(initial=0), np.abs(b).max(initial=0))


LAYOUTS = [
    # E, sub, fully, hermitian
    ([0.0, 1.0, 3.0, 4.5], [0, 0, 1, 1], (), True),
    ([0.0, 0.0, 2.0, 2.0, 5.0], [0, 0, 1, 1, 2], (), True),
    ([0.0, 1.0, 3.0, 4.5, 6.0], [0, 0, 0, 1, 1], (0,), True),
    ([0.0, 2.0, 2.0, 3.5], [0, 0, 0, 0], (), True),
    ([0.0, 0.0, 2.0, 2.0], [0, 0, 1, 1], (), False),
    ([0.5j, 1.0, 3.0 + 1j, 4.5], [0, 0, 1, 1], (0, 1), False),
    ([0.0, 1.0, 0.0, 2.0], [0, 0, 0, 0], (), True),                 # degenerate level on non-adjacent states, full diagonalization
    ([0.0, 1.0, 0.0, 3.0, 4.0], [0, 0, 0, 1, 1], (0,), True),
    ([1.0, 2.5, 0.0, 0.0], [0, 0, 1, 1], (), True),                 # identically zero H_0 block that is not the first block
    ([1.0, 2.5, 4.0, 0.0, 0.0], [0, 0, 0, 1, 1], (), True),
]
NAMES = ("H_tilde", "U", "U_inv")


def kw_of(fully):
    return {"fully_diagonalize": tuple(fully)} if fully else {}


def section_multi():
    global cases
    for li, (E, sub, fully, herm) in enumerate(LAYOUTS):
        for fmt in ("dense", "sparse"):
            pb = Problem(E, sub, nparam=2, hermitian=herm, seed=40 + li, fmt=fmt)
            kw = kw_of(fully)
            base = run(pb, **kw)
            N = 3
            ords = orders_upto(2, N)
            ref = {(s, o): full(pb.idx, base[s], o) for s in range(3) for o in ords}
            conv = {"dense": np.array, "sparse": sparse.csr_array}[fmt]
            z = tuple([0, 0])
            H0, H1, H2 = np.diag(pb.E).astype(complex), pb.terms[(1, 0)], pb.terms[(0, 1)]
            # scale
            cases += 1
            c = (2.0, -0.5) if herm else (2.0 - 1j, 0.5j)
            sc = run(pb, ham={z: conv(H0), (1, 0): conv(c[0] * H1), (0, 1): conv(c[1] * H2)}, **kw) if (not herm or all(np.isreal(c))) else None
            if sc is not None:
                for s in range(3):
                    for o in ords:
                        if not close(full(pb.idx, sc[s], o), c[0] ** o[0] * c[1] ** o[1] * ref[(s, o)]):
                            fail("multi", "scaling perturbation k by c_k does not multiply order n by prod c_k^n_k", layout=li, fmt=fmt, output=NAMES[s], order=o)
            # weak perturbations: scale factors 2^-20, 2^-21 (exact in binary floating point, so every order must scale exactly); the law is homogeneous,
            # so it is compared RELATIVE to the size of each order - an absolute threshold anywhere inside the recursion breaks it from the order whose
            # magnitude falls below that threshold, while the perturbations themselves stay far above the documented `atol` for zero input blocks
            cases += 1
            cw = (2.0 ** -20, 2.0 ** -21) if herm else (2.0 ** -20, 1j * 2.0 ** -21)
            wk = run(pb, ham={z: conv(H0), (1, 0): conv(cw[0] * H1), (0, 1): conv(cw[1] * H2)}, **kw)
            for s in range(3):
                for o in ords:
                    want = cw[0] ** o[0] * cw[1] ** o[1] * ref[(s, o)]
                    got = full(pb.idx, wk[s], o)
                    if np.abs(got - want).max(initial=0) > 1e-9 * np.abs(want).max(initial=0):
                        fail("multi", "scaling by small factors (2^-20, 2^-21) does not multiply order n by prod c_k^n_k relative to the size of that order",
                             layout=li, fmt=fmt, output=NAMES[s], order=o, relative_error=float(np.abs(got - want).max() / max(np.abs(want).max(), 1e-300)))
            # merge
            cases += 1
            mg = run(pb, ham={(0,): conv(H0), (1,): conv(H1 + H2)}, **kw)
            for s in range(3):
                for n in range(N + 1):
                    want = sum(ref[(s, (a, n - a))] for a in range(n + 1))
                    if not close(full(pb.idx, mg[s], (n,)), want):
                        fail("multi", "merging two perturbations into one parameter is not the sum over n1+n2=n", layout=li, fmt=fmt, output=NAMES[s], order=n)
            # permute
            cases += 1
            pm = run(pb, ham={z: conv(H0), (0, 1): conv(H1), (1, 0): conv(H2)}, **kw)
            for s in range(3):
                for o in ords:
                    if not close(full(pb.idx, pm[s], (o[1], o[0])), ref[(s, o)]):
                        fail("multi", "permuting the parameters does not permute the order indices", layout=li, fmt=fmt, output=NAMES[s], order=o)
            # vanishing third perturbation (explicit zero matrix) and a parameter that never occurs
            cases += 1
            for variant in ("zero-matrix", "absent"):
                h3 = {(0, 0, 0): conv(H0), (1, 0, 0): conv(H1), (0, 0, 1): conv(H2)}
                if variant == "zero-matrix":
                    h3[(0, 1, 0)] = conv(np.zeros_like(H1))
                vn = run(pb, ham=h3, **kw)
                for s in range(3):
                    for o in ords:
                        for mid in (0, 1):
                            got = full(pb.idx, vn[s], (o[0], mid, o[1]))
                            want = ref[(s, o)] if mid == 0 else 0 * ref[(s, o)]
                            if sum(o) + mid <= N and not close(got, want):
                                fail("multi", "adding a vanishing perturbation changes the result", variant=variant, layout=li, fmt=fmt, output=NAMES[s], order=(o[0], mid, o[1]))
            # substitution lambda -> lambda^p in the first parameter
            cases += 1
            p = 2
            sb = run(pb, ham={z: conv(H0), (p, 0): conv(H1), (0, 1): conv(H2)}, **kw)
            for s in range(3):
                for o in orders_upto(2, 4):
                    got = full(pb.idx, sb[s], o)
                    if o[0] % p == 0:
                        oo = (o[0] // p, o[1])
                        if sum(oo) > N:
                            continue
                        want = ref[(s, oo)]
                    else:
                        want = np.zeros_like(got)
                    if not close(got, want):
                        fail("multi", "substituting lambda -> lambda^2 does not only relabel orders", layout=li, fmt=fmt, output=NAMES[s], order=o)
    # symbolic input with mixed monomials: Taylor coefficients, merge y -> x, scale x -> 2x, against the dict with order tuples
    x, y = sympy.symbols("x y", real=True)
    rng = np.random.default_rng(48)
    n = 4
    E = [0, 1, 3, 5]
    sub = [0, 0, 1, 1]
    idx = [[0, 1], [2, 3]]

    def rmat():
        m = rng.integers(-3, 4, size=(n, n))
        return sympy.Matrix((m + m.T).tolist()) / 4
    S0 = sympy.diag(*E)
    A_, B_, C_, D_ = rmat(), rmat(), rmat(), rmat()
    tonp = lambda M: np.array(M.tolist(), dtype=float)  # noqa: E731
    sym = block_diagonalize(S0 + x * A_ + y * B_ + x * y * C_ + x * y ** 2 * D_, symbols=[x, y], subspace_indices=sub)
    dct = block_diagonalize({(0, 0): tonp(S0), (1, 0): tonp(A_), (0, 1): tonp(B_), (1, 1): tonp(C_), (1, 2): tonp(D_)}, subspace_indices=sub)
    mrg = block_diagonalize(S0 + x * A_ + x * B_ + x * x * C_ + x * x ** 2 * D_, symbols=[x], subspace_indices=sub)
    scl = block_diagonalize(S0 + 2 * x * A_ + y * B_ + 2 * x * y * C_ + 2 * x * y ** 2 * D_, symbols=[x, y], subspace_indices=sub)
    # the order of the user-supplied `symbols` defines the order axes (also when it is not alphabetical)
    swp = block_diagonalize(S0 + x * A_ + y * B_ + x * y * C_ + x * y ** 2 * D_, symbols=[y, x], subspace_indices=sub)
    for s in range(3):
        for o in orders_upto(2, 3):
            cases += 1
            if not close(full(idx, swp[s], (o[1], o[0])), full(idx, sym[s], o)):
                fail("multi", "symbolic input: symbols=[y, x] does not permute the order indices of symbols=[x, y]", output=NAMES[s], order=o)
    # the same for a dictionary with monomial keys: `symbols` fixes the order of the index axes and the dimension names report it;
    # without `symbols` the axes are the symbols of the keys sorted by name; the key of H_0 may be the Python integer 1
    mono = {1: tonp(S0), x: tonp(A_), y: tonp(B_), x * y: tonp(C_), x * y ** 2: tonp(D_)}
    mxy = block_diagonalize(dict(mono), subspace_indices=sub)
    myx = block_diagonalize(dict(mono), symbols=[y, x], subspace_indices=sub)
    cases += 2
    if [str(q) for q in mxy[0].dimension_names] != ["x", "y"]:
        fail("multi", "monomial-key dictionary without symbols: dimension names are not the symbols of the keys sorted by name", names=[str(q) for q in mxy[0].dimension_names])
    if [str(q) for q in myx[0].dimension_names] != ["y", "x"]:
        fail("multi", "monomial-key dictionary with symbols=[y, x]: dimension names are not the supplied symbols", names=[str(q) for q in myx[0].dimension_names])
    for s in range(3):
        for o in orders_upto(2, 3):
            cases += 1
            if not close(full(idx, mxy[s], o), full(idx, sym[s], o)):
                fail("multi", "monomial-key dictionary differs from the symbolic matrix with symbols=[x, y]", output=NAMES[s], order=o)
            if not close(full(idx, myx[s], (o[1], o[0])), full(idx, sym[s], o)):
                fail("multi", "monomial-key dictionary: symbols=[y, x] does not make the first index count powers of y", output=NAMES[s], order=o)
    for s in range(3):
        for o in orders_upto(2, 3):
            cases += 1
            if not close(full(idx, sym[s], o), full(idx, dct[s], o)):
                fail("multi", "symbolic input with mixed monomials differs from the same series given by order tuples", output=NAMES[s], order=o)
            if not close(full(idx, scl[s], o), 2 ** o[0] * full(idx, sym[s], o)):
                fail("multi", "symbolic input: scaling x by 2 does not multiply order n by 2^n_x", output=NAMES[s], order=o)
        for k in range(4):
            want = sum(full(idx, sym[s], (a, k - a)) for a in range(k + 1))
            if not close(full(idx, mrg[s], (k,)), want):
                fail("multi", "symbolic input: merging y into x is not the sum over n1+n2=n", output=NAMES[s], order=k)
    # three parameters: every grouping into one parameter
    pb = Problem([0.0, 1.0, 3.0, 4.5], [0, 0, 1, 1], nparam=3, seed=47)
    base = run(pb)
    H0 = np.diag(pb.E).astype(complex)
    Hs = [pb.terms[tuple(1 if q == k else 0 for q in range(3))] for k in range(3)]
    for grouping in ([0, 0, 1], [0, 1, 0], [1, 0, 0], [0, 1, 1]):
        cases += 1
        ham = {(0, 0): H0}
        for k, g in enumerate(grouping):
            key = (1, 0) if g == 0 else (0, 1)
            ham[key] = ham.get(key, 0) + Hs[k]
        gr = run(pb, ham=ham)
        for s in range(3):
            for o in orders_upto(2, 3):
                want = 0
                for o3 in orders_upto(3, 3):
                    tot = [0, 0]
                    for k, g in enumerate(grouping):
                        tot[g] += o3[k]
                    if tuple(tot) == tuple(o):
                        want = want + full(pb.idx, base[s], o3)
                if not close(full(pb.idx, gr[s], o), want):
                    fail("multi", "grouping three perturbations into two parameters is not the sum over the grouped orders", grouping=grouping, output=NAMES[s], order=o)


def section_covariance():
    global cases
    rng = np.random.default_rng(5)
    N = 3
    for li, (E, sub, fully, herm) in enumerate(LAYOUTS):
        pb = Problem(E, sub, nparam=1, hermitian=herm, seed=60 + li, second_order=True)
        kw = kw_of(fully)
        base = run(pb, **kw)
        ref = {(s, n): full(pb.idx, base[s], (n,)) for s in range(3) for n in range(N + 1)}
        n = pb.n
        ham = pb.hamiltonian()
        keys = sorted(ham)

        def compare(label, other, idx, transform):
            for s in range(3):
                for k in range(N + 1):
                    want = transform(ref[(s, k)], s, k)
                    if not close(full(idx, other[s], (k,)), want):
                        fail("covariance", label, layout=li, output=NAMES[s], order=k, err=float(np.abs(full(idx, other[s], (k,)) - want).max()))

        # relabelling of blocks
        nb = pb.nb
        for perm in itertools.permutations(range(nb)):
            if perm == tuple(range(nb)):
                continue
            cases += 1
            sub2 = [perm[b] for b in sub]
            kw2 = kw_of([perm[b] for b in fully])
            oth = block_diagonalize(ham, subspace_indices=sub2, hermitian=herm, **kw2)
            idx2 = [[a for a in range(n) if sub2[a] == b] for b in range(nb)]
            compare(f"relabelling blocks {perm} changes the result", oth, idx2, lambda m, s, k: m)
        # permutation of basis states
        cases += 1
        p = rng.permutation(n)
        Pm = np.eye(n)[:, p]          # new basis vector a = old basis vector p[a]
        ham2 = {o: Pm.T @ m @ Pm for o, m in ham.items()}
        sub2 = [sub[p[a]] for a in range(n)]
        oth = block_diagonalize(ham2, subspace_indices=sub2, hermitian=herm, **kw)
        idx2 = [[a for a in range(n) if sub2[a] == b] for b in range(nb)]
        compare("permuting basis states does not permute the result", oth, idx2, lambda m, s, k: Pm.T @ m @ Pm)
        # rotation inside degenerate levels of H_0 (within a block)
        R = np.eye(n, dtype=complex)
        Earr = np.array(E)
        rotated = False
        for b in range(nb):
            ix = pb.idx[b]
            for e in set(Earr[ix].tolist()):
                lev = [a for a in ix if Earr[a] == e]
                if len(lev) > 1:
                    q = np.linalg.qr(rng.normal(size=(len(lev), len(lev))) + 1j * rng.normal(size=(len(lev), len(lev))))[0]
                    R[np.ix_(lev, lev)] = q
                    rotated = True
        if rotated:
            cases += 1
            Ri = R.conj().T
            ham2 = {o: Ri @ m @ R for o, m in ham.items()}
            oth = block_diagonalize(ham2, subspace_indices=sub, hermitian=herm, **kw)
            compare("rotating the basis inside a degenerate level does not rotate the result", oth, pb.idx, lambda m, s, k: Ri @ m @ R)
        # complex conjugation
        cases += 1
        oth = block_diagonalize({o: m.conj() for o, m in ham.items()}, subspace_indices=sub, hermitian=herm, **kw)
        compare("complex conjugating the Hamiltonian does not conjugate the result", oth, pb.idx, lambda m, s, k: m.conj())
        # shift of H_0
        for c in (2.5, -7.0):
            cases += 1
            ham2 = dict(ham)
            ham2[keys[0]] = ham[keys[0]] + c * np.eye(n)
            oth = block_diagonalize(ham2, subspace_indices=sub, hermitian=herm, **kw)
            compare(f"adding {c} * identity to H_0 does more than shift H_tilde at order zero", oth, pb.idx,
                    lambda m, s, k: m + (c * np.eye(n) if (s == 0 and k == 0) else 0))
        # positive scaling
        for sc in (3.0, 0.125):
            cases += 1
            oth = block_diagonalize({o: sc * m for o, m in ham.items()}, subspace_indices=sub, hermitian=herm, **kw)
            compare(f"scaling the Hamiltonian by {sc} does not scale H_tilde / leave U unchanged", oth, pb.idx, lambda m, s, k: sc * m if s == 0 else m)
        # direct sum with a decoupled second system
        cases += 1
        pb2 = Problem([10.0, 12.0, 15.0], [0, 1, 1] if nb > 1 else [0, 0, 0], nparam=1, hermitian=herm, seed=90 + li, second_order=True)
        base2 = block_diagonalize(pb2.hamiltonian(), subspace_indices=pb2.sub, hermitian=herm, **kw)
        m2 = pb2.n
        hamS = {o: np.block([[ham[o], np.zeros((n, m2))], [np.zeros((m2, n)), pb2.hamiltonian()[o]]]) for o in ham}
        subS = list(sub) + list(pb2.sub)
        oth = block_diagonalize(hamS, subspace_indices=subS, hermitian=herm, **kw)
        idxS = [[a for a in range(n + m2) if subS[a] == b] for b in range(nb)]
        for s in range(3):
            for k in range(N + 1):
                got = full(idxS, oth[s], (k,))
                want = np.zeros((n + m2, n + m2), dtype=complex)
                want[:n, :n] = ref[(s, k)]
                want[n:, n:] = full(pb2.idx + [[] for _ in range(nb - pb2.nb)], base2[s], (k,)) if pb2.nb == nb else full(pb2.idx, base2[s], (k,))
                if not close(got, want):
                    fail("covariance", "result for a direct sum is not the direct sum of the results", layout=li, output=NAMES[s], order=k)


def section_covariance_masks():
    """C15 with selective elimination masks given as a dictionary: relabelling the blocks (keys follow the labels) and listing the dictionary in any order do not change the result."""
    global cases
    E = [0.0, 1.0, 2.5, 4.0, 5.5, 7.5, 9.0]
    sub = [0, 0, 0, 1, 1, 1, 2]
    pb = Problem(E, sub, nparam=1, hermitian=True, seed=61)
    ham = pb.hamiltonian()
    chain = np.zeros((3, 3), dtype=bool)
    chain[0, 2] = chain[2, 0] = True          # kept pattern not transitive
    pair = np.zeros((3, 3), dtype=bool)
    pair[0, 1] = pair[1, 0] = True
    N = 3
    for name, masks in (("one masked block", {1: chain}), ("two masked blocks", {0: pair, 1: chain}), ("first block only", {0: chain})):
        base = block_diagonalize(ham, subspace_indices=sub, fully_diagonalize=dict(masks))
        ref = {(s, k): full(pb.idx, base[s], (k,)) for s in range(3) for k in range(N + 1)}
        for perm in itertools.permutations(range(3)):
            for order in ("ascending", "descending"):
                cases += 1
                sub2 = [perm[b] for b in sub]
                items = sorted(((perm[b], m) for b, m in masks.items()), key=lambda kv: kv[0], reverse=(order == "descending"))
                oth = block_diagonalize(ham, subspace_indices=sub2, fully_diagonalize=dict(items))
                idx2 = [[a for a in range(pb.n) if sub2[a] == b] for b in range(3)]
                for s in range(3):
                    for k in range(N + 1):
                        if not close(full(idx2, oth[s], (k,)), ref[(s, k)]):
                            fail("covariance", "mask dictionary: relabelling the blocks / reordering the dictionary changes the result", masks=name, relabelling=perm, key_order=order,
                                 output=NAMES[s], order=k, err=float(np.abs(full(idx2, oth[s], (k,)) - ref[(s, k)]).max()))


def _degenerate_level_rotations():
    """C15 / C06 in implicit mode: a unitary change of basis INSIDE a degenerate explicit level transforms the explicit blocks covariantly, whatever the basis looks like
    (symmetry-adapted vectors with components of equal modulus, localised vectors, generic rotations, complex phases), and agrees with the fully explicit computation."""
    global cases
    Hd = np.array([[1, 1, 1, 1], [1, 1, -1, -1], [1, -1, 1, -1], [1, -1, -1, 1]], dtype=float).T / 2      # columns a, b, c, d
    n = 7
    V = np.eye(n)
    V[:4, :4] = Hd
    E = np.array([0.0, 0.0, 2.0, 3.0, 4.0, 5.5, 7.0])
    H0 = V @ np.diag(E) @ V.T
    r = np.random.default_rng(3)
    M = r.integers(-4, 5, size=(n, n)) / 8
    H1 = (M + M.T) / 2
    ham = [sparse.csr_array(H0), sparse.csr_array(H1)]
    a, b = V[:, 0], V[:, 1]
    ref = block_diagonalize([H0, H1], subspace_eigenvectors=[V[:, :2], V[:, 2:]])       # explicit computation in the basis (a, b)
    N = 3
    c45, s45 = np.cos(0.7), np.sin(0.7)
    bases = {
        "symmetry-adapted (a, b): components of equal modulus": np.eye(2),
        "localised (a+b, a-b)/sqrt2": np.array([[1, 1], [1, -1]]) / np.sqrt(2),
        "swapped (b, a)": np.array([[0, 1], [1, 0]], dtype=float),
        "generic rotation": np.array([[c45, -s45], [s45, c45]]),
        "complex phases": np.array([[1, 1j], [1j, 1]]) / np.sqrt(2),
        "sign flip (a, -b)": np.diag([1.0, -1.0]),
    }
    for name, R in bases.items():
        for solver in ("direct", "kpm"):
            if solver == "kpm" and (name != "generic rotation" or os.environ.get("VERIF_TIER", "quick") != "thorough"):
                continue
            cases += 1
            vA = np.stack([a, b], axis=1) @ R
            try:
                with warnings.catch_warnings():
                    warnings.simplefilter("ignore")
                    kw = {} if solver == "direct" else {"direct_solver": False, "solver_options": {"atol": 1e-10}}
                    out = block_diagonalize(ham if not np.iscomplexobj(vA) else [h.astype(complex) for h in ham], subspace_eigenvectors=[vA], **kw)
                    for s_ in (0,):
                        for o in range((N if solver == "direct" else 2) + 1):
                            got = out[s_][(0, 0, o)]
                            got = np.zeros((2, 2)) if got is zero else np.asarray(got)
                            want = ref[s_][(0, 0, o)]
                            want = np.zeros((2, 2)) if want is zero else np.asarray(want)
                            want = R.conj().T @ want @ R
                            tol = 1e-8 if solver == "direct" else 1e-6
                            if not close(got, want, tol):
                                fail("covariance", "implicit mode: a change of basis inside a degenerate explicit level is not a covariant change of the result (or differs from the explicit computation)",
                                     basis=name, solver=solver, output=NAMES[s_], order=o, err=float(np.abs(got - want).max()))
            except Exception as ex:  # noqa: BLE001
                fail("covariance", "implicit mode: a basis of a degenerate explicit level is refused", basis=name, solver=solver, error=repr(ex)[:200])


def section_covariance_implicit():
    """C15 in implicit mode (direct solver): permuting the explicit eigenvectors permutes the explicit blocks; conjugation; shift; direct sum."""
    global cases
    rng = np.random.default_rng(77)
    N = 3
    _degenerate_level_rotations()

    def dense_of(x, shape):
        if x is zero:
            return np.zeros(shape, dtype=complex)
        if hasattr(x, "matmat") and not isinstance(x, np.ndarray) and not sparse.issparse(x):
            return np.asarray(x @ np.eye(x.shape[1], dtype=complex))
        return dense(x, shape)

    def system(n, seed, cplx):
        r = np.random.default_rng(seed)
        d = np.sort(r.normal(size=n)) * 2 + np.arange(n)
        off = r.normal(size=n - 1) * 0.3
        H0 = np.diag(d) + np.diag(off, 1) + np.diag(off, -1)
        M = r.normal(size=(n, n)) + (1j * r.normal(size=(n, n)) if cplx else 0)
        H1 = (M + M.conj().T) / 2
        return H0.astype(complex if cplx else float), H1

    for cplx in (False, True):
        n, k = 9, 3
        H0, H1 = system(n, 5 + int(cplx), cplx)
        w, v = np.linalg.eigh(H0)
        vA = v[:, :k]
        ham = [sparse.csr_array(H0), sparse.csr_array(H1)]
        base = block_diagonalize(ham, subspace_eigenvectors=[vA])
        shapes = {(0, 0): (k, k), (0, 1): (k, n), (1, 0): (n, k)}
        ref = {(s, b, o): dense_of(base[s][b + (o,)], shapes[b]) for s in range(3) for b in shapes for o in range(N + 1)}
        # permutation of the explicit eigenvectors (levels no longer listed in ascending energy order)
        for perm in ([2, 0, 1], [1, 2, 0], [2, 1, 0]):
            cases += 1
            Pm = np.eye(k)[:, perm]
            oth = block_diagonalize(ham, subspace_eigenvectors=[vA[:, perm]])
            for s in range(3):
                for o in range(N + 1):
                    for b, tr in (((0, 0), lambda m: Pm.T @ m @ Pm), ((0, 1), lambda m: Pm.T @ m), ((1, 0), lambda m: m @ Pm)):
                        got = dense_of(oth[s][b + (o,)], shapes[b])
                        if not close(got, tr(ref[(s, b, o)]), 1e-8):
                            fail("covariance", "implicit mode: permuting the explicit eigenvectors does not permute the result", perm=perm, output=NAMES[s], block=b, order=o,
                                 cplx=cplx, err=float(np.abs(got - tr(ref[(s, b, o)])).max()))
        # shift of H_0 by a multiple of the identity
        cases += 1
        oth = block_diagonalize([sparse.csr_array(H0 + 2.5 * np.eye(n)), ham[1]], subspace_eigenvectors=[vA])
        for s in range(3):
            for o in range(N + 1):
                want = ref[(s, (0, 0), o)] + (2.5 * np.eye(k) if (s == 0 and o == 0) else 0)
                if not close(dense_of(oth[s][(0, 0, o)], (k, k)), want, 1e-8):
                    fail("covariance", "implicit mode: adding a multiple of the identity to H_0 does more than shift H_tilde at order zero", output=NAMES[s], order=o, cplx=cplx)
        # direct sum of two decoupled systems: explicit levels of the two summands interleave in energy
        cases += 1
        H0b, H1b = system(7, 31 + int(cplx), cplx)
        H0b = H0b + 0.37 * np.eye(7)
        wb, vb = np.linalg.eigh(H0b)
        kb = 2
        baseb = block_diagonalize([sparse.csr_array(H0b), sparse.csr_array(H1b)], subspace_eigenvectors=[vb[:, :kb]])
        Z = lambda a, b: np.zeros((a, b))  # noqa: E731
        H0s = np.block([[H0, Z(n, 7)], [Z(7, n), H0b]])
        H1s = np.block([[H1, Z(n, 7)], [Z(7, n), H1b]])
        vs = np.block([[vA, Z(n, kb)], [Z(7, k), vb[:, :kb]]])
        oth = block_diagonalize([sparse.csr_array(H0s), sparse.csr_array(H1s)], subspace_eigenvectors=[vs])
        for s in range(3):
            for o in range(N + 1):
                want = np.zeros((k + kb, k + kb), dtype=complex)
                want[:k, :k] = ref[(s, (0, 0), o)]
                want[k:, k:] = dense_of(baseb[s][(0, 0, o)], (kb, kb))
                got = dense_of(oth[s][(0, 0, o)], (k + kb, k + kb))
                if not close(got, want, 1e-8):
                    fail("covariance", "implicit mode: result for a direct sum is not the direct sum of the results", output=NAMES[s], order=o, cplx=cplx, err=float(np.abs(got - want).max()))

    # integer-valued tight-binding H_0 (integer on-site energies and hoppings, every diagonal entry stored) given with an INTEGER dtype: the explicit levels
    # have non-integer energies, so E - H_0 must be formed in floating point; scale by 1.0 / 2 / 0.5, shift by 0.5 and -2.25, all against the float reference
    n, k = 10, 2
    onsite = np.array([1, -2, 3, 5, 2, -1, 4, 1, -3, 2])
    H0i = np.diag(onsite) + np.diag(np.ones(n - 1, dtype=int), 1) + np.diag(np.ones(n - 1, dtype=int), -1)
    r = np.random.default_rng(123)
    M = r.normal(size=(n, n))
    H1 = (M + M.T) / 2
    w, v = np.linalg.eigh(H0i.astype(float))
    vA = v[:, :k]
    base = block_diagonalize([sparse.csr_array(H0i.astype(float)), sparse.csr_array(H1)], subspace_eigenvectors=[vA])
    refi = {(s, o): dense_of(base[s][(0, 0, o)], (k, k)) for s in range(3) for o in range(N + 1)}
    variants = [("int64 csr", sparse.csr_array(H0i.astype(np.int64)), 1.0, 0.0), ("int32 csr", sparse.csr_array(H0i.astype(np.int32)), 1.0, 0.0),
                ("int64 csc", sparse.csc_array(H0i.astype(np.int64)), 1.0, 0.0), ("int64 dense", H0i.astype(np.int64), 1.0, 0.0),
                ("2 * int64", sparse.csr_array(2 * H0i.astype(np.int64)), 2.0, 0.0), ("0.5 * float", sparse.csr_array(0.5 * H0i), 0.5, 0.0),
                ("shift 0.5", sparse.csr_array(H0i + 0.5 * np.eye(n)), 1.0, 0.5), ("shift -2.25", sparse.csr_array(H0i - 2.25 * np.eye(n)), 1.0, -2.25),
                ("int shift 3", sparse.csr_array((H0i + 3 * np.eye(n, dtype=int)).astype(np.int64)), 1.0, 3.0)]
    for label, h0v, sc, sh in variants:
        cases += 1
        try:
            oth = block_diagonalize([h0v, sparse.csr_array(sc * H1)], subspace_eigenvectors=[vA])
            for s in range(3):
                for o in range(N + 1):
                    want = (sc if s == 0 else 1.0) * refi[(s, o)] + (sh * np.eye(k) if (s == 0 and o == 0) else 0)
                    got = dense_of(oth[s][(0, 0, o)], (k, k))
                    if not close(got, want, 1e-8):
                        fail("covariance", "implicit mode: integer-valued H_0 - the result depends on the dtype / is not covariant under scale and shift", variant=label,
                             output=NAMES[s], order=o, err=float(np.abs(got - want).max()))
        except Exception as e:  # noqa: BLE001
            fail("covariance", "implicit mode: integer-valued H_0 rejected", variant=label, error=repr(e))


def herm_rand(rng, n, cplx=True):
    m = rng.integers(-3, 4, size=(n, n)).astype(complex)
    if cplx:
        m = m + 1j * rng.integers(-2, 3, size=(n, n))
    return (m + m.conj().T) / 4


def section_nh_frames():
    """C05 / C14: biorthogonal (R, L) frames with a perturbation that is exactly Hermitian in the basis in which it is given."""
    global cases
    n, N = 4, 3
    Ed = np.array([0.0, 0.0, 2.0 + 1j, 2.0 + 1j])
    idx = [[0, 1], [2, 3]]
    # the same as case 4 of `formats` with a perturbation that is exactly HERMITIAN in the basis in which it is given (a Hermitian coupling added to a non-Hermitian H_0), dense and sparse,
    #     also with a merely rescaled frame R = c v, L = v / conj(c): the blocks are L_i^dagger H R_j for every (i, j) - nothing may be taken from an adjoint
    for frame in ("biorthogonal", "rescaled", "lower-triangular", "upper-triangular"):
        for conv4 in (np.array, sparse.csr_array):
            cases += 1
            r4 = np.random.default_rng(15)
            if frame == "biorthogonal":
                R4 = r4.integers(-2, 3, size=(n, n)).astype(complex) + 1j * r4.integers(-1, 2, size=(n, n)) + 3 * np.eye(n)
            elif frame.endswith("triangular"):
                # H_0 = R diag(E) R^-1 is then triangular: every off-diagonal entry lies on ONE side of the diagonal (a test of diagonality may not look at one triangle only)
                R4 = np.eye(n, dtype=complex) + np.tril(r4.integers(-2, 3, size=(n, n)), -1)
                if frame.startswith("upper"):
                    R4 = R4.T.copy()
            else:
                R4 = np.linalg.qr(r4.normal(size=(n, n)) + 1j * r4.normal(size=(n, n)))[0] * np.array([2.0, 0.5j, 1.0 + 1.0j, 3.0])
            L4 = np.linalg.inv(R4).conj().T
            H0lab = R4 @ np.diag(Ed) @ L4.conj().T
            Hh = herm_rand(r4, n)                                   # Hermitian in the lab frame
            try:
                a4 = block_diagonalize([conv4(H0lab), conv4(Hh)], subspace_eigenvectors=((R4[:, :2], L4[:, :2]), (R4[:, 2:], L4[:, 2:])), hermitian=False)
                b4 = block_diagonalize([np.diag(Ed), L4.conj().T @ Hh @ R4], subspace_indices=[0, 0, 1, 1], hermitian=False)
                [a4[0][0, 0, 0], a4[0][1, 1, 0]]
            except Exception as e:  # noqa: BLE001
                fail("formats", "well-posed non-Hermitian problem given in a biorthogonal frame is rejected", frame=frame, values=conv4.__name__, error=repr(e)[:200])
                continue
            for s_ in range(3):
                for k in range(N + 1):
                    if not close(full(idx, a4[s_], (k,)), full(idx, b4[s_], (k,)), 1e-7):
                        fail("formats", "biorthogonal eigenbasis with a Hermitian perturbation is not equivalent to projecting the Hamiltonian first", frame=frame, values=conv4.__name__,
                             output=NAMES[s_], order=k, err=float(np.abs(full(idx, a4[s_], (k,)) - full(idx, b4[s_], (k,))).max()))


def section_formats():
    global cases
    rng = np.random.default_rng(8)
    N = 3
    # 1. container formats x value types, blocks by subspace_indices
    for li, (E, sub, fully, herm) in enumerate(LAYOUTS[:4]):
        pb = Problem(E, sub, nparam=2, hermitian=True, seed=70 + li, cplx=False)
        kw = kw_of(fully)
        H0, H1, H2 = np.diag(pb.E), pb.terms[(1, 0)].real, pb.terms[(0, 1)].real
        base = run(pb, **kw)
        ords = orders_upto(2, N)
        ref = {(s, o): full(pb.idx, base[s], o) for s in range(3) for o in ords}
        x, y = sympy.symbols("x y", real=True)
        rat = lambda m: sympy.Matrix(m.shape[0], m.shape[1], lambda i, j: sympy.nsimplify(m[i, j], rational=True))  # noqa: E731
        S0, S1, S2 = rat(H0), rat(H1), rat(H2)
        sp = sparse.csr_array
        variants = {
            "list/dense": ([H0, H1, H2], {}),
            "list/sparse": ([sp(H0), sp(H1), sp(H2)], {}),
            "list/mixed": ([H0, sp(H1), H2], {}),
            "list/sympy": ([S0, S1, S2], {}),
            "dict-tuples/dense": ({(0, 0): H0, (1, 0): H1, (0, 1): H2}, {}),
            "dict-tuples/sparse-coo": ({(0, 0): sparse.coo_array(H0), (0, 1): sparse.coo_array(H2), (1, 0): sparse.csc_array(H1)}, {}),
            "dict-monomials/dense": ({sympy.Integer(1): H0, x: H1, y: H2}, {}),
            "dict-monomials/sympy": ({y: S2, sympy.Integer(1): S0, x: S1}, {}),
            "sympy-matrix": (S0 + x * S1 + y * S2, {"symbols": [x, y]}),
            "sympy-matrix-immutable": (sympy.ImmutableMatrix(S0 + x * S1 + y * S2), {"symbols": [x, y]}),
            "list/sympy-immutable": ([sympy.ImmutableMatrix(S0), sympy.ImmutableMatrix(S1), sympy.ImmutableMatrix(S2)], {}),
            "sympy-matrix-analytic": (S0 + sympy.sin(x) * S1 + (sympy.exp(y) - 1) * S2, {"symbols": [x, y]}),
        }
        # a BlockSeries with scalar shape
        data = {(0, 0): H0, (1, 0): H1, (0, 1): H2}
        variants["BlockSeries/scalar"] = (BlockSeries(data=dict(data), shape=(), n_infinite=2), {})
        for nm, (ham, extra) in variants.items():
            cases += 1
            try:
                got = block_diagonalize(ham, subspace_indices=sub, **kw, **extra)
            except Exception as e:
                fail("formats", "supported input format raised", variant=nm, layout=li, error=repr(e)[:300])
                continue
            for s in range(3):
                for o in ords:
                    if nm == "sympy-matrix-analytic":
                        # Taylor coefficients: sin x = x - x^3/6, exp y - 1 = y + y^2/2 + y^3/6: compare with the run on the expanded dict
                        continue
                    try:
                        g = full(pb.idx, got[s], o)
                    except Exception as e:
                        fail("formats", "evaluating the result raised", variant=nm, layout=li, output=NAMES[s], order=o, error=repr(e)[:300])
                        break
                    if not close(g, ref[(s, o)]):
                        fail("formats", "input format changes the result", variant=nm, layout=li, output=NAMES[s], order=o, err=float(np.abs(g - ref[(s, o)]).max()))
            if nm == "sympy-matrix-analytic":
                cases += 1
                exp = {(0, 0): H0, (1, 0): H1, (3, 0): -H1 / 6, (0, 1): H2, (0, 2): H2 / 2, (0, 3): H2 / 6}
                want = block_diagonalize(exp, subspace_indices=sub, **kw)
                for s in range(3):
                    for o in ords:
                        if not close(full(pb.idx, got[s], o), full(pb.idx, want[s], o)):
                            fail("formats", "analytic symbolic dependence is not Taylor expanded", layout=li, output=NAMES[s], order=o)
        # nested block lists and a BlockSeries with block shape
        cases += 1
        nb = pb.nb
        blk = lambda M: [[M[np.ix_(pb.idx[i], pb.idx[j])] for j in range(nb)] for i in range(nb)]  # noqa: E731
        try:
            got = block_diagonalize([blk(H0), blk(H1), blk(H2)], **kw)
            for s in range(3):
                for o in ords:
                    if not close(full(pb.idx, got[s], o), ref[(s, o)]):
                        fail("formats", "nested block lists change the result", layout=li, output=NAMES[s], order=o)
        except Exception as e:
            fail("formats", "nested block lists raised", layout=li, error=repr(e)[:300])
        # 2. subspace_indices vs the corresponding eigenvector matrices, and a rotated eigenbasis vs the rotated Hamiltonian
        cases += 1
        I = np.eye(pb.n)
        vecs = tuple(I[:, pb.idx[b]] for b in range(nb))
        got = block_diagonalize([H0, H1, H2], subspace_eigenvectors=vecs, **kw)
        for s in range(3):
            for o in ords:
                if not close(full(pb.idx, got[s], o), ref[(s, o)]):
                    fail("formats", "subspace_eigenvectors (identity columns) differ from subspace_indices", layout=li, output=NAMES[s], order=o)
        cases += 1
        Q = np.linalg.qr(rng.normal(size=(pb.n, pb.n)) + 1j * rng.normal(size=(pb.n, pb.n)))[0]
        rot = [Q @ M @ Q.conj().T for M in (H0, H1, H2)]           # same operator in another basis; eigenvectors of rot[0] are the columns of Q
        got = block_diagonalize(rot, subspace_eigenvectors=tuple(Q[:, pb.idx[b]] for b in range(nb)), **kw)
        for s in range(3):
            for o in ords:
                if not close(full(pb.idx, got[s], o), ref[(s, o)]):
                    fail("formats", "passing an eigenbasis is not equivalent to rotating the Hamiltonian into it", layout=li, output=NAMES[s], order=o)
    # 1b. the same for hermitian=False with genuinely non-Hermitian perturbations (format equivalence does not depend on the algorithm being exact):
    #     nested block lists (as list and as dict with order tuples), block-shaped BlockSeries, sparse values
    for li, (E, sub) in enumerate((([0.0, 0.0, 2.0, 2.0], [0, 0, 1, 1]), ([1.0, 1.0, 1.0, 4.0, 4.0], [0, 0, 0, 1, 1]), ([0.0, 3.0, 3.0, -2.0], [0, 1, 1, 2]))):
        pb = Problem(E, sub, nparam=2, hermitian=False, seed=170 + li)
        H0, H1, H2 = np.diag(pb.E).astype(complex), pb.terms[(1, 0)], pb.terms[(0, 1)]
        base = block_diagonalize([H0, H1, H2], subspace_indices=sub, hermitian=False)
        ords = orders_upto(2, N)
        ref = {(s, o): full(pb.idx, base[s], o) for s in range(3) for o in ords}
        nb = pb.nb
        blk = lambda M: [[M[np.ix_(pb.idx[i], pb.idx[j])] for j in range(nb)] for i in range(nb)]  # noqa: E731
        blk0 = [[H0[np.ix_(pb.idx[i], pb.idx[j])] if i == j else zero for j in range(nb)] for i in range(nb)]
        sp = sparse.csr_array
        variants = {
            "nh/nested-lists": ([blk(H0), blk(H1), blk(H2)], {}),
            "nh/nested-lists-dict": ({(0, 0): blk(H0), (1, 0): blk(H1), (0, 1): blk(H2)}, {}),
            "nh/list-sparse": ([sp(H0), sp(H1), sp(H2)], {"subspace_indices": sub}),
            "nh/dict-tuples": ({(0, 1): H2, (0, 0): H0, (1, 0): H1}, {"subspace_indices": sub}),
            "nh/BlockSeries-blocks": (BlockSeries(data={(i, j) + o: (blk0 if o == (0, 0) else blk(M))[i][j] for o, M in (((0, 0), H0), ((1, 0), H1), ((0, 1), H2))
                                                          for i in range(nb) for j in range(nb)}, shape=(nb, nb), n_infinite=2), {}),
        }
        for nm, (ham, extra) in variants.items():
            cases += 1
            try:
                got = block_diagonalize(ham, hermitian=False, **extra)
                for s in range(3):
                    for o in ords:
                        g = full(pb.idx, got[s], o)
                        if not close(g, ref[(s, o)]):
                            fail("formats", "input format changes the result (hermitian=False, non-Hermitian perturbation)", variant=nm, layout=li, output=NAMES[s], order=o,
                                 err=float(np.abs(g - ref[(s, o)]).max()))
            except Exception as e:
                fail("formats", "supported input format raised (hermitian=False)", variant=nm, layout=li, error=repr(e)[:300])
    # 3. operator_to_BlockSeries returns exactly L_i^dagger A R_j (unitary and biorthogonal), incl. long interleaved labels
    for n, nb, seed in ((6, 2, 1), (11, 3, 2), (24, 3, 3), (48, 4, 4)):
        cases += 1
        r = np.random.default_rng(seed)
        labels = r.integers(0, nb, size=n)
        labels[:nb] = np.arange(nb)
        A0 = np.diag(np.arange(n, dtype=float) + 1)
        A1 = r.integers(-5, 6, size=(n, n)).astype(float)
        for conv, cname in ((np.array, "dense"), (sparse.csr_array, "sparse")):
            op = operator_to_BlockSeries([conv(A0), conv(A1)], subspace_indices=labels)
            idx = [[a for a in range(n) if labels[a] == b] for b in range(nb)]
            for i in range(nb):
                for j in range(nb):
                    for o, M in (((0,), A0), ((1,), A1)):
                        want = M[np.ix_(idx[i], idx[j])]
                        got = dense(op[(i, j) + o], want.shape)
                        if not np.array_equal(got, want.astype(complex)):
                            fail("formats", "operator_to_BlockSeries with subspace_indices is not the block of states in order of appearance", n=n, kind=cname, block=(i, j), order=o)
    for herm in (True, False):
        cases += 1
        n = 7
        r = np.random.default_rng(11)
        Rm = r.normal(size=(n, n)) + 1j * r.normal(size=(n, n))
        if herm:
            Rm = np.linalg.qr(Rm)[0]
            Lm = Rm
        else:
            Lm = np.linalg.inv(Rm).conj().T
        A = [r.normal(size=(n, n)) + 1j * r.normal(size=(n, n)) for _ in range(2)]
        if herm:
            A = [a + a.conj().T for a in A]
        cuts = [[0, 1, 2], [3, 4], [5, 6]]
        se = tuple(Rm[:, c] for c in cuts) if herm else tuple((Rm[:, c], Lm[:, c]) for c in cuts)
        op = operator_to_BlockSeries(A, subspace_eigenvectors=se, hermitian=herm)
        for i in range(3):
            for j in range(3):
                for o in (0, 1):
                    want = Lm[:, cuts[i]].conj().T @ A[o] @ Rm[:, cuts[j]]
                    got = dense(op[(i, j, o)], want.shape)
                    if not close(got, want, 1e-11):
                        fail("formats", "operator_to_BlockSeries block differs from L_i^dagger A R_j", hermitian=herm, block=(i, j), order=o)
    # 4. biorthogonal eigenbasis of a non-Hermitian H_0 == rotating first
    cases += 1
    r = np.random.default_rng(13)
    n = 4
    Rm = r.normal(size=(n, n)) + 1j * r.normal(size=(n, n))
    Lm = np.linalg.inv(Rm).conj().T
    Ed = np.array([0.0, 0.0, 2.0 + 1j, 2.0 + 1j])
    D = [np.diag(Ed), r.normal(size=(n, n)) + 1j * r.normal(size=(n, n))]
    lab = [Rm @ M @ Lm.conj().T for M in D]
    a = block_diagonalize(lab, subspace_eigenvectors=((Rm[:, :2], Lm[:, :2]), (Rm[:, 2:], Lm[:, 2:])), hermitian=False)
    b = block_diagonalize(D, subspace_indices=[0, 0, 1, 1], hermitian=False)
    idx = [[0, 1], [2, 3]]
    for s in range(3):
        for k in range(N + 1):
            if not close(full(idx, a[s], (k,)), full(idx, b[s], (k,)), 1e-7):
                fail("formats", "biorthogonal eigenbasis is not equivalent to rotating the Hamiltonian first", output=NAMES[s], order=k)
    section_nh_frames()
    # 5. rounding noise within atol in H_0 (between the blocks and inside them) is treated as zero whatever the value type: dense, sparse, pre-blocked with sparse or dense blocks
    cases += 1
    E4 = np.diag([0.0, 1.0, 3.0, 4.5])
    noise = np.zeros((4, 4))
    noise[0, 2] = noise[2, 0] = 1e-14
    noise[0, 1] = noise[1, 0] = 3e-13
    noise[1, 3] = noise[3, 1] = -2e-15
    P1 = herm_rand(np.random.default_rng(77), 4, cplx=False).real
    clean = block_diagonalize([E4, P1], subspace_indices=[0, 0, 1, 1])
    idx4 = [[0, 1], [2, 3]]

    def blocked(A, conv):
        return [[conv(A[:2, :2]), conv(A[:2, 2:])], [conv(A[2:, :2]), conv(A[2:, 2:])]]
    noisy_inputs = {"dense": ([E4 + noise, P1], {"subspace_indices": [0, 0, 1, 1]}), "csr": ([sparse.csr_array(E4 + noise), sparse.csr_array(P1)], {"subspace_indices": [0, 0, 1, 1]}),
                    "coo": ([sparse.coo_array(E4 + noise), sparse.coo_array(P1)], {"subspace_indices": [0, 0, 1, 1]}),
                    "pre-blocked dense": ([blocked(E4 + noise, np.array), blocked(P1, np.array)], {}), "pre-blocked csr": ([blocked(E4 + noise, sparse.csr_array), blocked(P1, sparse.csr_array)], {})}
    dupl = blocked(E4, sparse.coo_array)
    dupl[0][1] = sparse.coo_array(([1.0, -1.0], ([0, 0], [1, 1])), shape=(2, 2))      # duplicate entries that cancel: the zero matrix
    dupl[1][0] = sparse.coo_array(([2.0, -2.0, 1e-14], ([1, 1, 0], [0, 0, 1])), shape=(2, 2))
    noisy_inputs["pre-blocked coo with cancelling duplicate entries"] = ([dupl, blocked(P1, sparse.coo_array)], {})
    for vname, (ham, kw) in noisy_inputs.items():
        try:
            res = block_diagonalize(ham, **kw)
            for s in range(3):
                for k in range(N + 1):
                    if not close(full(idx4, res[s], (k,)), full(idx4, clean[s], (k,)), 1e-9) and k > 0:
                        fail("formats", "rounding noise within atol in H_0 changes the result", value_type=vname, output=NAMES[s], order=k)
        except Exception as e:  # noqa: BLE001
            fail("formats", "H_0 with rounding noise within atol is rejected for this value type only", value_type=vname, error=repr(e)[:200])
    # 7. values of the legacy scipy.sparse MATRIX classes throughout (documented value type; `*` is the matrix product for them): nested block lists and full matrices with
    #    eigenvectors that are themselves sparse matrices, equal and unequal block sizes
    for sizes in ((3, 3), (2, 3), (2, 2, 2)):
        nn = sum(sizes)
        lab = [b for b, sz in enumerate(sizes) for _ in range(sz)]
        E7 = np.diag(np.arange(nn) * 1.5 + np.array(lab) * 2.0)
        P7 = herm_rand(np.random.default_rng(7 + nn), nn, cplx=False).real
        ref7 = block_diagonalize([E7, P7], subspace_indices=lab)
        idx7 = [[a for a in range(nn) if lab[a] == b] for b in range(len(sizes))]
        cuts = np.cumsum((0,) + sizes)
        for mat in (sparse.csr_matrix, sparse.csc_matrix, sparse.coo_matrix):
            cases += 1
            def blocks7(A, mat=mat):
                return [[mat(A[cuts[i]:cuts[i + 1], cuts[j]:cuts[j + 1]]) if (i == j or A is not E7) else zero for j in range(len(sizes))] for i in range(len(sizes))]
            variants7 = {"nested blocks": lambda: block_diagonalize([blocks7(E7), blocks7(P7)]),
                         "full matrices, sparse-matrix eigenvectors": lambda: block_diagonalize([mat(E7), mat(P7)], subspace_eigenvectors=[mat(np.eye(nn)[:, ix]) for ix in idx7])}
            for vname, mk in variants7.items():
                try:
                    with warnings.catch_warnings():
                        warnings.simplefilter("ignore")
                        res = mk()
                        for s_ in range(3):
                            for k in range(N + 1):
                                if not close(full(idx7, res[s_], (k,)), full(idx7, ref7[s_], (k,)), 1e-9):
                                    fail("formats", "legacy sparse-matrix values give a different result than dense values", variant=vname, cls=mat.__name__, sizes=sizes, output=NAMES[s_], order=k)
                except Exception as e:  # noqa: BLE001
                    fail("formats", "legacy sparse-matrix values raised", variant=vname, cls=mat.__name__, sizes=sizes, error=repr(e)[:200])
    # 6. a symbolic Hamiltonian without `symbols`: the order axes are the free symbols sorted by name (in particular the same in every run)
    cases += 1
    sa, sb, sc = sympy.symbols("a b c")
    Hs3 = sympy.Matrix([[-1 + sa + 2 * sb, sa * sb + sc], [sa * sb + sc, 1 - sa + 3 * sc]])
    out3 = block_diagonalize(Hs3, subspace_indices=[0, 1])[0]
    if list(out3.dimension_names) != [sa, sb, sc]:
        fail("formats", "symbolic Hamiltonian without symbols=: the order axes are not the free symbols sorted by name", got=str(out3.dimension_names))
    elif sympy.simplify(sympy.Matrix(out3[0, 0, 0, 1, 0])[0, 0] - 2 * sb) != 0:      # (symbolic input keeps the monomial in the value)
        fail("formats", "symbolic Hamiltonian without symbols=: first order in b is not the coefficient of b", got=str(out3[0, 0, 0, 1, 0]))


def _implicit_nh_full():
    """hermitian=False, implicit mode, explicit block fully diagonalized (list and mask form): equals the computation with the complete basis, to order 5
    (the algorithm then asks the solver for the implicit diagonal block from third order on)."""
    global cases
    h0 = np.diag([0.0, 1.0, 3.0, 4.0, 6.5])
    r_ = np.random.default_rng(12)
    h1 = r_.integers(-2, 3, size=(5, 5)).astype(float) / 2
    I5 = np.eye(5)
    RB = I5[:, 2:]

    def dn(x, shape):
        if x is zero:
            return np.zeros(shape, dtype=complex)
        if x is one:
            return np.eye(shape[0], dtype=complex)
        if hasattr(x, "matmat") and not isinstance(x, np.ndarray) and not sparse.issparse(x):
            return np.asarray(x @ np.eye(x.shape[1]))
        return dense(x, shape)
    m_ = np.array([[False, True], [True, False]])
    for fd in ([0], {0: m_}):
        cases += 1
        try:
            imp = block_diagonalize([sparse.csr_array(h0), sparse.csr_array(h1)], subspace_eigenvectors=[I5[:, :2]], hermitian=False, fully_diagonalize=fd)
            ref = block_diagonalize([h0, h1], subspace_eigenvectors=[I5[:, :2], RB], hermitian=False, fully_diagonalize=fd)
            for s_ in range(3):
                for k in range(6):
                    pairs = ((dn(imp[s_][0, 0, k], (2, 2)), dn(ref[s_][0, 0, k], (2, 2))), (RB.T @ dn(imp[s_][1, 1, k], (5, 5)) @ RB, dn(ref[s_][1, 1, k], (3, 3))),
                             (dn(imp[s_][0, 1, k], (2, 5)) @ RB, dn(ref[s_][0, 1, k], (2, 3))), (RB.T @ dn(imp[s_][1, 0, k], (5, 2)), dn(ref[s_][1, 0, k], (3, 2))))
                    for a_, b_ in pairs:
                        if not close(a_, b_, 1e-8):
                            fail("implicit", "non-Hermitian implicit mode with a fully diagonalized explicit block differs from the complete-basis computation", fully_diagonalize=str(fd)[:20],
                                 output=NAMES[s_], order=k, err=float(np.abs(a_ - b_).max()))
        except Exception as e:  # noqa: BLE001
            fail("implicit", "non-Hermitian implicit mode with a fully diagonalized explicit block raised", fully_diagonalize=str(fd)[:20], error=repr(e)[:200])


def _kpm_accuracy_is_not_a_degeneracy_tolerance():
    """C06 with the KPM solver: the accuracy requested for the Green's function (solver_options['atol']) must not decide which EXPLICIT energies count as equal.
    Two explicit levels 5e-4 apart, accuracy 1e-3: the result must still be the explicit one (to that accuracy), in one fully diagonalized block and in two blocks."""
    global cases
    n = 8
    h0 = np.diag([0, 5e-4, 3, 4, 5, 6, 7, 8.0])
    r = np.random.default_rng(1)
    M = r.normal(size=(n, n))
    h1 = (M + M.T) / 2
    I = np.eye(n)
    ref1 = np.asarray(block_diagonalize([h0, h1], subspace_eigenvectors=[I[:, :2], I[:, 2:]], fully_diagonalize=[0])[0][0, 0, 2])
    ref2 = np.asarray(block_diagonalize([h0, h1], subspace_eigenvectors=[I[:, :1], I[:, 1:2], I[:, 2:]])[0][0, 0, 2])
    for acc in (1e-5, 1e-3):
        for label, kw, vecs, ref in (("one fully diagonalized block", {"fully_diagonalize": [0]}, [I[:, :2]], ref1), ("two blocks", {}, [I[:, :1], I[:, 1:2]], ref2)):
            cases += 1
            try:
                with warnings.catch_warnings():
                    warnings.simplefilter("ignore")
                    got = np.asarray(block_diagonalize([sparse.csr_array(h0), sparse.csr_array(h1)], subspace_eigenvectors=vecs, direct_solver=False,
                                                       solver_options={"atol": acc}, **kw)[0][0, 0, 2])
                if np.abs(got - ref).max() > 50 * acc * max(1.0, np.abs(ref).max()):
                    fail("implicit", "KPM solver: the requested accuracy of the Green's function changes which explicit energies are treated as equal (result far from the explicit one)",
                         layout=label, accuracy=acc, err=float(np.abs(got - ref).max()), size=float(np.abs(ref).max()))
            except Exception as ex:  # noqa: BLE001
                fail("implicit", "KPM solver: a well-posed problem is refused when a coarse accuracy is requested", layout=label, accuracy=acc, error=repr(ex)[:200])


def section_implicit():
    global cases
    _implicit_nh_full()
    _kpm_accuracy_is_not_a_degeneracy_tolerance()
    rng = np.random.default_rng(21)
    N = 3

    def act(x, n):
        """Dense matrix of a block that may be a LinearOperator."""
        if x is zero:
            return None
        if hasattr(x, "matmat") and not isinstance(x, np.ndarray) and not sparse.issparse(x):
            return np.asarray(x @ np.eye(x.shape[1], dtype=complex))
        return None

    for li, (n, cuts, cplx, herm, degen) in enumerate([
        (8, [[2, 0]], False, True, False), (8, [[1, 0]], True, True, False), (9, [[2, 0], [3, 1]], True, True, False), (9, [[2], [0, 3, 1]], False, True, True),
        (9, [[0, 2, 1]], True, True, True), (8, [[2, 0]], True, False, False), (9, [[3, 2], [0, 4, 1]], True, False, True),
    ]):
        cases += 1
        M = rng.normal(size=(n, n)) + (1j * rng.normal(size=(n, n)) if cplx else 0)
        if herm:
            H0 = M + M.conj().T
            w, v = np.linalg.eigh(H0)
            Rv, Lv = v, v
            if degen:
                w[1] = w[0]
                H0 = (v * w) @ v.conj().T
        else:
            w = rng.normal(size=n) + 1j * rng.normal(size=n)
            if degen:
                w[1] = w[0]
            Rv = M
            Lv = np.linalg.inv(Rv).conj().T
            H0 = Rv @ np.diag(w) @ Lv.conj().T
        P1 = rng.normal(size=(n, n)) + (1j * rng.normal(size=(n, n)) if cplx else 0)
        if herm:
            P1 = P1 + P1.conj().T
        P1 = P1 / 4
        # explicit levels are deliberately not in ascending position order; degenerate levels (0, 1) share a block, interleaved with another level
        order = list(range(n))
        pick = [a for c in cuts for a in c]
        ks = [len(c) for c in cuts]
        rest = [a for a in order if a not in pick]
        nb = len(ks) + 1
        if herm:
            se_imp = tuple(Rv[:, c] for c in cuts)
            se_exp = se_imp + (Rv[:, rest],)
        else:
            se_imp = tuple((Rv[:, c], Lv[:, c]) for c in cuts)
            se_exp = se_imp + ((Rv[:, rest], Lv[:, rest]),)
        ham = [sparse.csr_array(H0), sparse.csr_array(P1)]
        try:
            with warnings.catch_warnings():
                warnings.simplefilter("ignore")
                imp = block_diagonalize(ham, subspace_eigenvectors=se_imp, hermitian=herm, direct_solver=True)
                exp = block_diagonalize([H0, P1], subspace_eigenvectors=se_exp, hermitian=herm)
        except Exception as e:
            fail("implicit", "block_diagonalize raised", case=li, error=repr(e)[:300])
            continue
        Rrest, Lrest = Rv[:, rest], Lv[:, rest]
        for s in range(3):
            for k in range(N + 1):
                for i in range(nb):
                    for j in range(nb):
                        try:
                            a = imp[s][(i, j, k)]
                            b = exp[s][(i, j, k)]
                        except Exception as e:
                            fail("implicit", "evaluating a block raised", case=li, output=NAMES[s], block=(i, j), order=k, error=repr(e)[:300])
                            continue
                        ri = len(cuts[i]) if i < nb - 1 else len(rest)
                        rj = len(cuts[j]) if j < nb - 1 else len(rest)
                        bd = dense(b, (ri, rj))
                        # embed the explicit block into the ambient space where the implicit run keeps the last block
                        Lh = Rrest if i == nb - 1 else None
                        Rh = Lrest.conj().T if j == nb - 1 else None
                        want = bd
                        if Lh is not None:
                            want = Lh @ want
                        if Rh is not None:
                            want = want @ Rh
                        if a is zero:
                            ad = np.zeros_like(want)
                        elif a is one:
                            # identity on the complement of the explicit subspace
                            allR = np.hstack([Rv[:, c] for c in cuts])
                            allL = np.hstack([Lv[:, c] for c in cuts])
                            ad = np.eye(n) - allR @ allL.conj().T if i == j == nb - 1 else np.eye(want.shape[0])
                        else:
                            m = act(a, n)
                            ad = m if m is not None else dense(a, want.shape)
                        if one is b and i == j == nb - 1:
                            want = Rrest @ Lrest.conj().T
                        if not close(ad, want, 1e-7):
                            fail("implicit", "implicit mode differs from the explicit computation", case=li, hermitian=herm, complex=cplx, degenerate=degen,
                                 output=NAMES[s], block=(i, j), order=k, err=float(np.abs(ad - want).max()))


if __name__ == "__main__":
    for off in B.OFFSETS:
        B.OFF = off
        for name in sections:
            fn = globals().get("section_" + name)
            if fn is None:
                continue
            if off and name in ("implicit", "covariance_implicit"):
                continue
            try:
                fn()
            except Exception:
                import traceback
                fail(name, "battery section crashed", error=traceback.format_exc()[-1500:], seed_offset=off)
    print(json.dumps({"cases": cases, "failures": failures}))
    sys.exit(1 if failures else 0)
