"""Native bounded battery for NumberOrderedForm arithmetic and second quantization (C07, C08).

Oracle: independent matrix representation (concretiser/fock.py: truncated Fock space, Jordan-Wigner,
two-level spins, shift lattice), compared on states away from the truncation edge.
Usage: python nof_battery.py <repo-path> <section>[,...]      sections: algebra, convert, secondq
Bounds: <= 5 modes (boson, ladder, spin, 2-3 fermions), powers <= 2, Fock cutoff 6-7, fixed seeds.
"""
import itertools
import json
import random
import sys
import warnings

repo = sys.argv[1] if len(sys.argv) > 1 else "/repo"
sections = (sys.argv[2] if len(sys.argv) > 2 else "algebra,convert").split(",")
sys.path.insert(0, repo)
sys.path.insert(0, __file__.rsplit("/replay/", 1)[0])
warnings.simplefilter("ignore")
import numpy as np  # noqa: E402
import sympy  # noqa: E402
from sympy.physics.quantum import Dagger, pauli  # noqa: E402
from sympy.physics.quantum.boson import BosonOp  # noqa: E402
from sympy.physics.quantum.fermion import FermionOp  # noqa: E402

from pymablock.number_ordered_form import NumberOrderedForm as NOF, NumberOperator, LadderOp, generator_types  # noqa: E402
from concretiser.fock import Rep, max_shift, compare_on_interior  # noqa: E402

failures = []
cases = 0
import os  # noqa: E402
THOROUGH = os.environ.get("VERIF_TIER", "quick") == "thorough"
SEED_OFF = (1000 + 7 * int(os.environ.get("VERIF_SEED", "0") or 0)) if THOROUGH else 0


def fail(section, what, **kw):
    if len(failures) < 40:
        failures.append(dict(section=section, what=what, **{k: repr(v)[:400] for k, v in kw.items()}))


def sort_ops(ops):
    return sorted(ops, key=lambda op: (generator_types.index(type(op)), str(op.name)))


def placeholders(ops):
    names = {BosonOp: "BosonOp", LadderOp: "LadderOp", pauli.SigmaMinus: "SigmaOpBase", FermionOp: "FermionOp"}
    return [sympy.Symbol(f"number_operator_placeholder_{o.name}_{names[type(o)]}", integer=True) for o in ops]


def rand_nof(rnd, ops, nterms=2):
    ph = placeholders(ops)
    terms = {}
    for _ in range(nterms):
        pw = []
        for o in ops:
            if isinstance(o, (BosonOp, LadderOp)):
                pw.append(rnd.choice([0, 0, 1, -1, 2, -2]))
            else:
                pw.append(rnd.choice([0, 0, 1, -1]))
        # canonical form: the coefficient does not depend on binary numbers whose power is non-zero
        usable = [p for p, o, w in zip(ph, ops, pw) if isinstance(o, (BosonOp, LadderOp)) or w == 0]
        coeff = sympy.Integer(rnd.choice([1, 2, -1, 3]))
        for p in usable:
            if rnd.random() < 0.4:
                coeff = coeff + rnd.choice([1, 2, -1]) * p
        if len(usable) >= 2 and rnd.random() < 0.3:
            coeff = coeff + usable[0] * usable[-1]
        terms[tuple(sympy.Integer(p) for p in pw)] = sympy.sympify(coeff)
    return NOF(ops, terms, validate=False)


def mat(rep, x):
    return rep.nof_matrix(x)


def section_algebra():
    global cases
    a, l = BosonOp("a"), LadderOp("l")
    s = pauli.SigmaMinus("s")
    c, d, e = FermionOp("c"), FermionOp("d"), FermionOp("e")
    for layout, D in (([a, c, d], 7), ([c, d, e], 2), ([a, l, s, c], 6), ([s, c, d], 2), ([a], 9), ([l, c], 7)):
        ops = sort_ops(layout)
        rep = Rep(ops, D=D)
        rnd = random.Random(len(ops) * 100 + D + SEED_OFF)
        for trial in range(12 * (3 if THOROUGH else 1)):
            x, y, z = rand_nof(rnd, ops), rand_nof(rnd, ops), rand_nof(rnd, ops, 1)
            cases += 1
            m = max_shift(x, y, z)
            X, Y, Z = mat(rep, x), mat(rep, y), mat(rep, z)
            checks = {
                "x*y": (x * y, X @ Y, m), "x+y": (x + y, X + Y, m), "x-y": (x - y, X - Y, m), "-x": (-x, -X, m),
                "(x*y)*z": ((x * y) * z, X @ Y @ Z, m), "x*(y*z)": (x * (y * z), X @ Y @ Z, m),
                "x*(y+z)": (x * (y + z), X @ (Y + Z), m), "(x+y)*z": ((x + y) * z, (X + Y) @ Z, m),
                "adjoint(x*y)": (Dagger(x * y), None, m), "x**2": (x ** 2, X @ X, m), "x**3": (x ** 3, X @ X @ X, m),
            }
            for nm, (got, want, marg) in checks.items():
                try:
                    if nm == "adjoint(x*y)":
                        # the adjoint reverses products: (xy)^dagger = y^dagger x^dagger (compared inside the algebra)
                        want = mat(rep, Dagger(y) * Dagger(x))
                    err = compare_on_interior(rep, mat(rep, got), want, 2 * marg + 1)
                    if err > 1e-7:
                        fail("algebra", f"{nm} differs from the matrix representation", layout=[str(o) for o in ops], x=x.terms, y=y.terms, z=z.terms, err=err)
                except Exception as ex:
                    fail("algebra", f"{nm} raised", layout=[str(o) for o in ops], error=repr(ex)[:300])
            # adjoint of a single term against the conjugate transpose (normalised representation)
            try:
                err = compare_on_interior(rep, mat(rep, Dagger(x)), X.conj().T, 2 * m + 1)
                err2 = compare_on_interior(rep, mat(rep, Dagger(x)).conj().T, X, 2 * m + 1)
                if min(err, err2) > 1e-7:
                    fail("algebra", "adjoint differs from the conjugate transpose", layout=[str(o) for o in ops], x=x.terms, err=min(err, err2))
            except Exception as ex:
                fail("algebra", "adjoint raised", error=repr(ex)[:300])

    # products with plain Python numbers on either side
    a0 = BosonOp("a")
    rep0 = Rep([a0], D=9)
    x0 = NOF.from_expr(a0 + 2 * Dagger(a0) * NumberOperator(a0))
    X0 = mat(rep0, x0)
    for nm, thunk, fac in (("x * 2", lambda: x0 * 2, 2), ("2 * x", lambda: 2 * x0, 2), ("x * 2.5", lambda: x0 * 2.5, 2.5), ("x * Integer(3)", lambda: x0 * sympy.Integer(3), 3)):
        cases += 1
        try:
            if compare_on_interior(rep0, mat(rep0, thunk()), fac * X0, 3) > 1e-9:
                fail("algebra", f"{nm} differs from the scalar multiple", factor=fac)
        except Exception as ex:
            fail("algebra", f"{nm} raised", error=repr(ex)[:200])
    # integer powers of SINGLE-term forms (monomials with number-dependent coefficients and unmatched creators or annihilators), incl. power 0
    for layout, D in (([a], 14), ([a, c], 12), ([l, c], 12), ([a, l], 9), ([s, c], 2)):
        ops = sort_ops(layout)
        rep = Rep(ops, D=D)
        rnd = random.Random(len(ops) * 77 + D + SEED_OFF)
        vacuous = True
        for trial in range(16 * (3 if THOROUGH else 1)):
            z = rand_nof(rnd, ops, 1)
            cases += 1
            m = max_shift(z)
            Z = mat(rep, z)
            for k in (0, 1, 2, 3):
                try:
                    want = np.linalg.matrix_power(Z, k)
                    cols = rep.interior(k * m + 1)
                    vacuous = vacuous and not len(cols)
                    for nm, got in ((f"z**{k}", z ** k), (f"z**Integer({k})", z ** sympy.Integer(k))):
                        err = compare_on_interior(rep, mat(rep, got), want, k * m + 1)
                        if err > 1e-7:
                            fail("algebra", f"{nm} of a single-term form differs from the matrix power", layout=[str(o) for o in ops], z=z.terms, err=err)
                except Exception as ex:
                    fail("algebra", f"z**{k} raised", layout=[str(o) for o in ops], z=z.terms, error=repr(ex)[:300])
        if vacuous:
            fail("algebra", "battery error: no interior states for the power checks", layout=[str(o) for o in ops])


def section_convert():
    global cases
    a, b = BosonOp("a"), BosonOp("b")
    l = LadderOp("l")
    c, d = FermionOp("c"), FermionOp("d")
    s = pauli.SigmaMinus("s")
    Na, Nc = NumberOperator(a), NumberOperator(c)
    exprs = [
        (a * Dagger(a) * a, [a]), (Dagger(a) ** 2 * a ** 3 + 2 * Na, [a]), ((a + Dagger(a)) ** 3, [a]), (Na * a * a * Dagger(a), [a]),
        (a * Dagger(b) * b * Dagger(a), [a, b]), (c * Dagger(d) + Dagger(d) * c, [c, d]), (d * c * Dagger(c) * Dagger(d), [c, d]),
        (Dagger(c) * c * d + d * Nc, [c, d]), (a * c * Dagger(a) * Dagger(c) + Na * Nc, [a, c]), (pauli.SigmaX("s") * pauli.SigmaZ("s"), [s]),
        (pauli.SigmaY("s") * pauli.SigmaMinus("s") + pauli.SigmaZ("s"), [s]), (l * Dagger(l) + Dagger(l) ** 2 * l, [l]),
        ((a * Dagger(c) + c * Dagger(a)) ** 2, [a, c]), (sympy.exp(Na) * a, [a]),
        # sums with a term that vanishes identically (c^+ N_c = c^+ c^+ c = 0): the term still has to be convertible
        (Dagger(c) * Nc + d, [c, d]), (Dagger(c) * Nc + 2 * NumberOperator(d) * d + a, [a, c, d]), (Nc * Dagger(c) + Dagger(c) * Nc + Dagger(d) * d, [c, d]),
    ]
    for expr, ops in exprs:
        cases += 1
        ops = sort_ops(ops)
        try:
            x = NOF.from_expr(expr)
            back = NOF.from_expr(x.as_expr())
            if list(back.operators) != list(x.operators):
                back = back._expand_operators(x.operators)
            rep = Rep(list(x.operators), D=9)
            m = max_shift(x) + 3
            # independent evaluation of the original expression by substituting matrices
            M = eval_expr(expr, rep, list(x.operators))
            err = compare_on_interior(rep, mat(rep, x), M, m)
            if err > 1e-6:
                fail("convert", "from_expr differs from the matrix evaluation of the expression", expr=expr, nof=x.terms, err=err)
            err = compare_on_interior(rep, mat(rep, back), mat(rep, x), m)
            if err > 1e-7:
                fail("convert", "as_expr / from_expr round trip changes the operator", expr=expr, err=err)
        except Exception as ex:
            fail("convert", "conversion raised", expr=expr, error=repr(ex)[:300])


def eval_expr(expr, rep, ops):
    """Matrix of a sympy operator expression, independently of NumberOrderedForm."""
    idx = {o: i for i, o in enumerate(ops)}
    I = np.eye(rep.dim, dtype=complex)

    def ann(o):
        return rep.ann(idx[o])

    def ev(e):
        if isinstance(e, sympy.Add):
            return sum((ev(x) for x in e.args), np.zeros_like(I))
        if isinstance(e, sympy.Mul):
            out = I
            for x in e.args:
                out = out @ ev(x)
            return out
        if isinstance(e, sympy.Pow):
            return np.linalg.matrix_power(ev(e.base), int(e.exp))
        if isinstance(e, (BosonOp, FermionOp, LadderOp)):
            g = type(e)(e.name)
            return ann(g) if e.is_annihilation else ann(g).conj().T
        if isinstance(e, pauli.SigmaMinus):
            return ann(pauli.SigmaMinus(e.name))
        if isinstance(e, pauli.SigmaPlus):
            return ann(pauli.SigmaMinus(e.name)).conj().T
        if isinstance(e, pauli.SigmaX):
            m = ann(pauli.SigmaMinus(e.name))
            return m + m.conj().T
        if isinstance(e, pauli.SigmaY):
            m = ann(pauli.SigmaMinus(e.name))
            return 1j * m - 1j * m.conj().T
        if isinstance(e, pauli.SigmaZ):
            m = ann(pauli.SigmaMinus(e.name))
            return 2 * (m.conj().T @ m) - I
        if isinstance(e, NumberOperator):
            g = [o for o in ops if o.name == e.name][0]
            return np.diag(rep.number_diag(idx[g])).astype(complex)
        if isinstance(e, sympy.exp):
            return np.diag(np.exp(np.diag(ev(e.args[0]))))
        if e.is_number:
            return complex(e) * I
        raise ValueError(f"cannot evaluate {e!r}")
    return ev(sympy.sympify(expr))


def _entry_matrix(rep, x):
    """Matrix on the Fock space of one entry of an operator-valued result."""
    from pymablock.series import zero as _zero, one as _one
    if x is _zero or x == 0:
        return np.zeros((rep.dim, rep.dim), dtype=complex)
    x = NOF.from_expr(x, list(rep.ops)) if not isinstance(x, NOF) else x
    if list(x.operators) != list(rep.ops):
        x = x._expand_operators(list(rep.ops))
    return rep.nof_matrix(x)


def _nonzero(rep, x, margin):
    """True iff the NumberOrderedForm x is not the zero operator: some coefficient does not simplify to zero and the
    matrix on interior Fock states is non-zero as well."""
    if all(sympy.simplify(v) == 0 for v in x.terms.values()):
        return False
    return compare_on_interior(rep, _entry_matrix(rep, x), np.zeros((rep.dim, rep.dim)), margin) > 1e-8


def _block_matrix(rep, blk, shape):
    from pymablock.series import zero as _zero, one as _one
    r, c = shape
    out = np.zeros((r * rep.dim, c * rep.dim), dtype=complex)
    if blk is _zero:
        return out
    if blk is _one:
        return np.eye(r * rep.dim, dtype=complex)
    if not isinstance(blk, sympy.MatrixBase):
        blk = sympy.Matrix([[blk]])
    for i in range(r):
        for j in range(c):
            out[i * rep.dim:(i + 1) * rep.dim, j * rep.dim:(j + 1) * rep.dim] = _entry_matrix(rep, blk[i, j])
    return out


def section_solver():
    """C16: the second-quantized Sylvester solver as an exact operator identity H_i V - V H_j = Y (residual simplified in number-ordered form),
    for number-conserving H_0 over every combination of statistics, diagonal elements (Hermitian right-hand side, as the algorithm supplies) and off-diagonal blocks."""
    global cases
    from pymablock.second_quantization import solve_sylvester_2nd_quant
    w, e, e2, dl, Uc = sympy.symbols("omega epsilon epsilon_2 delta U", positive=True)
    m, f, b, g = LadderOp("m"), FermionOp("f"), BosonOp("b"), FermionOp("g")
    sz, sm = pauli.SigmaZ("s"), pauli.SigmaMinus("s")
    n_m, n_f, n_b, n_g = NumberOperator(m), NumberOperator(f), NumberOperator(b), NumberOperator(g)
    problems = [
        ("boson + fermion, diagonal", ((w * n_b + e * n_f,),), [[(b + Dagger(b)) * n_f]], (0, 0, 1)),
        ("boson + spin, diagonal", ((w * n_b + e * sz / 2,),), [[(b + Dagger(b)) * sz]], (0, 0, 1)),
        ("anharmonic boson, two-photon term", ((w * n_b + Uc * n_b ** 2,),), [[b ** 2 * (1 + n_b) + Dagger(b ** 2 * (1 + n_b)) + Dagger(b) * n_b + n_b * b]], (0, 0, 1)),
        ("ladder + fermion, ladder power without fermion flip", ((w * n_m + e * n_f,),), [[(m + Dagger(m)) * n_f]], (0, 0, 1)),
        ("ladder + fermion, off-diagonal block", ((w * n_m + e * n_f,), (w * n_m + e2 * n_f + dl,)), [[Dagger(m) * n_f + 3 * m * (1 - n_f) + f * m]], (0, 1, 1)),
        ("ladder + spin, longitudinal drive", ((w * n_m + e * sz / 2,),), [[(m + Dagger(m)) * sz]], (0, 0, 1)),
        ("ladder + boson + fermion", ((w * n_m + Uc * n_b ** 2 + e * n_f,),), [[(m ** 2 * Dagger(b) + Dagger(m) ** 2 * b) * (1 + n_f)]], (0, 0, 1)),
        ("two fermions with interaction, hopping and pairing", ((e * n_f + e2 * n_g + Uc * n_f * n_g,),), [[Dagger(f) * g + Dagger(g) * f + 2 * f * g + 2 * Dagger(g) * Dagger(f)]], (0, 0, 1)),
        ("ladder + two fermions, number-dependent hop", ((w * n_m + e * n_f + e2 * n_g,),), [[Dagger(m) * Dagger(f) * g * (1 + n_m) + Dagger(Dagger(m) * Dagger(f) * g * (1 + n_m))]], (0, 0, 1)),
        ("ladder + two fermions, off-diagonal block (no symmetry of Y)", ((w * n_m + e * n_f + e2 * n_g,), (w * n_m + e * n_f + e2 * n_g + dl,)),
         [[Dagger(m) * Dagger(f) * g * (1 + n_m) + m * Dagger(g) * f + n_f]], (0, 1, 1)),
        ("2x2 block with spin flips", ((w * n_b, w * n_b + dl), (w * n_b + e * sz / 2,)), [[sm * b + Dagger(sm)], [Dagger(b) * sz + 2]], (0, 1, 1)),
    ]
    for name, eigs, Y, index in problems:
        cases += 1
        try:
            V = solve_sylvester_2nd_quant(eigs)(sympy.Matrix(Y), index)
            res = sympy.diag(*eigs[index[0]]) * V - V * sympy.diag(*eigs[index[1]]) - sympy.Matrix(Y)
            for i in range(res.rows):
                for j in range(res.cols):
                    entry = NOF.from_expr(res[i, j]).simplify()
                    if not entry.is_zero:
                        fail("solver", "second-quantized solver: H_i V - V H_j - Y is not the zero operator", problem=name, entry=(i, j), residual=str(entry)[:200])
        except Exception as ex:
            fail("solver", "second-quantized solver raised", problem=name, error=repr(ex)[:300])


def section_sq_finding():
    """Witness of known finding F-SQ (C07): a number-conserving H_0 whose physical levels are non-degenerate but for which a physical level coincides with an
    UNPHYSICAL one (negative occupation): H_0 = N + N^2 has E(0) = E(-1).  The solver's coefficient 1/(E(N) - E(N+1)) = -1/(2(N+1)) is shifted by the normal
    ordering a^dagger g(N) a = N g(N-1) = -N/(2N), which sympy cancels to -1/2: wrong in the vacuum, where a|0> = 0."""
    global cases
    from pymablock import block_diagonalize
    cases += 1
    a = BosonOp("a")
    n = NumberOperator(a)
    Ht, U, Ud = block_diagonalize([sympy.Matrix([[n + n ** 2]]), sympy.Matrix([[a + Dagger(a)]])])
    rep = Rep([a], D=10)
    got = _entry_matrix(rep, Ht[0, 0, 2][0, 0])
    am = np.diag(np.sqrt(np.arange(1, 10)), 1)
    nm = np.diag(np.arange(10)).astype(float)
    ref = block_diagonalize([nm + nm @ nm, am + am.T])[0][0, 0, 2]
    if abs(got[0, 0] - ref[0, 0]) > 1e-9:
        fail("sq_finding", "second order energy of the vacuum for H_0 = N + N^2, H_1 = a + a^dagger: operator result differs from the matrix result",
             operator=float(np.real(got[0, 0])), matrix=float(np.real(ref[0, 0])))
    elif np.abs(np.diag(got)[1:5] - np.diag(ref)[1:5]).max() > 1e-9:
        fail("sq_finding", "unexpected: excited states differ as well")


def section_asexpr_finding():
    """Witness of known finding F-ASEXPR (C08): as_expr() of a form whose coefficient is a function of the number operator that sympy regards as commutative
    (Abs, ...): sympy moves the coefficient in front of the creation operators, which changes the operator."""
    global cases
    cases += 1
    a = BosonOp("a")
    Na = NumberOperator(a)
    X = NOF.from_expr(Dagger(a)) * NOF.from_expr(sympy.Abs(Na - 3))
    back = NOF.from_expr(X.as_expr())
    rep = Rep([a], D=10)
    if compare_on_interior(rep, mat(rep, back), mat(rep, X), 2) > 1e-9:
        fail("asexpr_finding", "from_expr(as_expr(x)) differs from x for x = a^dagger |N - 3|", as_expr=str(X.as_expr()), back=str(back.terms), orig=str(X.terms))


def section_nh2q_finding():
    """Witness of known finding F-NH2Q (C05): hermitian=False with operator-valued (second-quantized) input: solve_sylvester_2nd_quant always applies the Hermitian
    shortcut (solve half of the terms, subtract the adjoint)."""
    global cases
    from pymablock import block_diagonalize
    cases += 1
    a = BosonOp("a")
    N = NumberOperator(a)
    Ht, U, Ui = block_diagonalize([sympy.Matrix([[N]]), sympy.Matrix([[a + 2 * Dagger(a)]])], hermitian=False)
    rep = Rep([a], D=12)
    got = _entry_matrix(rep, Ht[0, 0, 2][0, 0])
    # exact second-order energy of N + lam (a + 2 a^dagger): -2 for every level (non-Hermitian displacement)
    want = -2.0 * np.eye(rep.dim)
    if compare_on_interior(rep, got, want, 3) > 1e-9:
        fail("nh2q_finding", "hermitian=False with second-quantized input: H_tilde_2 of N + lam (a + 2 a^dagger) is not -2", got=str(Ht[0, 0, 2]))


def section_secondq():
    """C07: operator-valued block_diagonalize against numpy block_diagonalize of the truncated matrices, on Fock states far from the edge."""
    global cases
    from pymablock import block_diagonalize
    R = sympy.Rational
    a, b = BosonOp("a"), BosonOp("b")
    s = pauli.SigmaMinus("s")
    c, d, e = FermionOp("c"), FermionOp("d"), FermionOp("e")
    Na, Nb, Ns, Nc, Nd, Ne = (NumberOperator(o) for o in (a, b, s, c, d, e))
    sx = pauli.SigmaX("s")
    models = [
        # name, operators, H0 (scalar or matrix), H1, Fock cutoff, max order, block labels of the matrix index (None: single block), numeric mask maker
        ("anharmonic boson", [a], Na + R(1, 5) * Na ** 2, a + Dagger(a) + R(1, 3) * (a ** 2 + Dagger(a) ** 2), 14, 3, None),
        ("two bosons, beam splitter and squeezing", [a, b], Na + R(3, 7) * Nb, Dagger(a) * b + Dagger(b) * a + R(1, 2) * (a * b + Dagger(a) * Dagger(b)), 7, 2, None),
        ("Jaynes-Cummings with counter-rotating terms", [a, s], Na + R(3, 7) * Ns, (a + Dagger(a)) * sx, 12, 3, None),
        ("three fermions, hopping and pairing", [c, d, e], R(1, 2) * Nc + R(4, 3) * Nd + R(16, 7) * Ne + R(1, 5) * Nc * Nd,
         Dagger(c) * d + Dagger(d) * c + c * e + Dagger(e) * Dagger(c) + 2 * (d * e + Dagger(e) * Dagger(d)), 2, 3, None),
        ("spin, two fermions and a boson", [a, s, c, d], R(3, 7) * Ns + Na + R(5, 11) * Nc + R(2, 3) * Nd,
         sx + (Dagger(c) * d + Dagger(d) * c) * (1 + a + Dagger(a)), 9, 3, None),
        ("ladder mode driving a fermion number (ladder power without a fermion flip)", [LadderOp("m"), c], NumberOperator(LadderOp("m")) + R(3, 7) * Nc,
         (LadderOp("m") + Dagger(LadderOp("m"))) * (1 + 2 * Nc) + R(1, 2) * (c + Dagger(c)), 11, 3, None),
        ("ladder mode and a spin, longitudinal drive", [LadderOp("m"), s], NumberOperator(LadderOp("m")) + R(5, 11) * Ns,
         (LadderOp("m") + Dagger(LadderOp("m"))) * (Ns - R(1, 2)) + R(1, 3) * sx, 11, 3, None),
        ("boson-fermion hopping with an imaginary amplitude (complex coefficients)", [a, c], Na + R(3, 7) * Nc, sympy.I * (Dagger(a) * c - Dagger(c) * a) + R(1, 2) * (a + Dagger(a)), 11, 3, None),
        ("matrix-valued, two blocks", [a], sympy.Matrix([[Na, 0], [0, Na + R(5, 3)]]), sympy.Matrix([[a + Dagger(a), 2 * a], [2 * Dagger(a), Na]]), 12, 3, [0, 1]),
        ("matrix-valued, two blocks, immutable sympy matrices", [a], sympy.ImmutableMatrix([[Na, 0], [0, Na + R(5, 3)]]),
         sympy.ImmutableMatrix([[a + Dagger(a), 2 * a], [2 * Dagger(a), Na]]), 12, 3, [0, 1]),
        ("matrix-valued, two blocks, the second block of H_0 identically zero", [a], sympy.Matrix([[Na + R(5, 3), 0], [0, 0]]),
         sympy.Matrix([[0, a + 2 * Dagger(a)], [Dagger(a) + 2 * a, 0]]), 12, 3, [0, 1]),
        ("matrix-valued, excited level first, zero-energy DOUBLET second (the zero block has more levels than its partner)", [a], sympy.Matrix([[Na + R(5, 2), 0, 0], [0, 0, 0], [0, 0, 0]]),
         sympy.Matrix([[0, a + Dagger(a), 2 * Dagger(a)], [a + Dagger(a), 0, R(1, 2)], [2 * a, R(1, 2), 0]]), 10, 2, [0, 1, 1]),
        ("two-level system with c-number H_0 (zero second block) and operator-valued coupling", [a], sympy.Matrix([[R(7, 3), 0], [0, 0]]),
         sympy.Matrix([[0, a + Dagger(a)], [a + Dagger(a), 0]]), 12, 3, [0, 1]),
    ]
    import os
    import time
    thorough = os.environ.get("VERIF_TIER", "quick") == "thorough"
    timing = {}
    for name, ops, H0, H1, D, N, labels in models:
        if not thorough:
            N = min(N, 2)
        cases += 1
        t0 = time.time()
        try:
            ops = sort_ops(ops)
            rep = Rep(ops, D=D)
            matrix_valued = isinstance(H0, sympy.MatrixBase)
            m = H0.rows if matrix_valued else 1
            H0m = H0 if matrix_valued else sympy.Matrix([[H0]])
            H1m = H1 if matrix_valued else sympy.Matrix([[H1]])
            kw = {"subspace_indices": labels} if labels else {}
            Ht, U, Ud = block_diagonalize([H0m, H1m], **kw)
            # truncated matrices of the same Hamiltonian, built independently from the elementary matrices
            def big(M):
                out = np.zeros((m * rep.dim, m * rep.dim), dtype=complex)
                for i in range(m):
                    for j in range(m):
                        out[i * rep.dim:(i + 1) * rep.dim, j * rep.dim:(j + 1) * rep.dim] = eval_expr(M[i, j], rep, ops)
                return out
            h0, h1 = big(H0m), big(H1m)
            if np.abs(h0 - np.diag(np.diag(h0))).max() > 1e-12:
                fail("secondq", "battery error: H_0 is not diagonal in the Fock basis", model=name)
                continue
            sub = [labels[i] for i in range(m) for _ in range(rep.dim)] if labels else None
            nkw = {"subspace_indices": sub} if labels else {}
            Htn, Un, Udn = block_diagonalize([np.diag(np.diag(h0).real), h1], **nkw)
            nb = (max(labels) + 1) if labels else 1
            rows = [[i for i in range(m) if (labels[i] if labels else 0) == blk] for blk in range(nb)]
            interior = rep.interior(N + max_shift(NOF.from_expr(sum(H1m), ops)) * N + 1)
            for order in range(N + 1):
                for (S, Sn, nm) in ((Ht, Htn, "H_tilde"), (U, Un, "U"), (Ud, Udn, "U_adjoint")):
                    for bi in range(nb):
                        for bj in range(nb):
                            got = _block_matrix(rep, S[(bi, bj, order)], (len(rows[bi]), len(rows[bj])))
                            ref = Sn[(bi, bj, order)]
                            from pymablock.series import zero as _zero, one as _one
                            shape = (len(rows[bi]) * rep.dim, len(rows[bj]) * rep.dim)
                            if ref is _zero:
                                ref = np.zeros(shape)
                            elif ref is _one:
                                ref = np.eye(shape[0])
                            elif hasattr(ref, "toarray"):
                                ref = ref.toarray()
                            ref = np.asarray(ref, dtype=complex)
                            cols = np.concatenate([interior for _ in rows[bj]])
                            err = np.abs(got[:, cols] - ref[:, cols]).max(initial=0)
                            if err > 1e-7 * max(1.0, np.abs(ref).max(initial=0)):
                                fail("secondq", "operator-valued result differs from the block-diagonalized truncated matrices on interior Fock states",
                                     model=name, output=nm, block=(bi, bj), order=order, err=float(err))
            # unitarity and U^dagger H U = H_tilde within the operator algebra (single-block models), to total order N
            if not labels:
                from pymablock.series import zero as _zero, one as _one
                def val(S, k):
                    v = S[(0, 0, k)]
                    if v is _zero:
                        return sympy.zeros(m, m)
                    if v is _one:
                        return sympy.eye(m)
                    return v
                Hs = {0: H0m.applyfunc(lambda x: NOF.from_expr(x, ops)), 1: H1m.applyfunc(lambda x: NOF.from_expr(x, ops))}
                for k in range(1, N + 1):
                    tot = sympy.zeros(m, m)
                    for i in range(k + 1):
                        tot = tot + val(Ud, i) * val(U, k - i)
                    if any(_nonzero(rep, NOF.from_expr(x, ops), 3 * N + 2) for x in tot):
                        fail("secondq", "U^dagger U != 1 within the operator algebra", model=name, order=k)
                    tot = sympy.zeros(m, m)
                    for i in range(k + 1):
                        for j in range(k - i + 1):
                            hk = k - i - j
                            if hk in Hs:
                                tot = tot + val(Ud, i) * Hs[hk] * val(U, j)
                    diff = (tot - val(Ht, k)).applyfunc(lambda x: NOF.from_expr(x, ops))
                    if any(_nonzero(rep, x, 3 * N + 2) for x in diff):
                        fail("secondq", "U^dagger H U != H_tilde within the operator algebra", model=name, order=k)
        except Exception:
            import traceback
            fail("secondq", "model raised", model=name, error=traceback.format_exc()[-900:])
    # complex couplings WITHOUT a literal imaginary unit (a plain Symbol, conjugate(g)): substituting a complex value into the symbolic result must give the result for
    # that value (the latter path, with a literal I, is compared with matrices above: "imaginary amplitude")
    from pymablock.series import zero
    gs = sympy.Symbol("g")
    val = R(1, 2) + R(3, 4) * sympy.I
    for cname, H0c, H1c in (("anharmonic boson", Na + R(1, 5) * Na ** 2, gs * a + sympy.conjugate(gs) * Dagger(a) + R(1, 3) * (gs * a ** 2 + sympy.conjugate(gs) * Dagger(a) ** 2)),
                            ("spin-boson", Na + R(3, 7) * Ns, gs * a * Dagger(s) + sympy.conjugate(gs) * Dagger(a) * s + R(1, 2) * (a + Dagger(a)))):
        cases += 1
        try:
            outs_s = block_diagonalize([sympy.Matrix([[H0c]]), sympy.Matrix([[H1c]])])
            outs_v = block_diagonalize([sympy.Matrix([[H0c]]), sympy.Matrix([[H1c.subs(gs, val)]])])
            for nm, Ss, Sv in (("H_tilde", outs_s[0], outs_v[0]), ("U", outs_s[1], outs_v[1]), ("U_adjoint", outs_s[2], outs_v[2])):
                for k_ in range(1, 3):
                    xs, xv = Ss[0, 0, k_], Sv[0, 0, k_]
                    if xs is zero or xv is zero:
                        if xs is not xv:
                            fail("secondq", "complex symbolic coupling: zero pattern differs from the result for the substituted value", model=cname, output=nm, order=k_)
                        continue
                    d_ = NOF.from_expr(sympy.Matrix(xs)[0, 0].subs(gs, val)) - NOF.from_expr(sympy.Matrix(xv)[0, 0])
                    if not all(sympy.simplify(v) == 0 for v in d_.terms.values()):
                        fail("secondq", "complex symbolic coupling (no literal I): substituting the value into the result differs from the result for that value", model=cname, output=nm, order=k_,
                             difference=str(d_)[:200])
        except Exception as ex:  # noqa: BLE001
            fail("secondq", "complex symbolic coupling raised", model=cname, error=repr(ex)[:300])
    # value types of the perturbation next to an operator-valued H_0: numpy arrays (float, int), sparse arrays and sympy matrices of c-numbers are the same series
    H0v = sympy.Matrix([[Na, 0], [0, Na + R(5, 3)]])
    H2v = sympy.Matrix([[0, a], [Dagger(a), 0]])
    refv = None
    for vname, conv in (("sympy", lambda m: sympy.Matrix(m.tolist())), ("ndarray int", lambda m: m), ("ndarray float", lambda m: m.astype(float)),
                        ("sparse array", lambda m: __import__("scipy.sparse").sparse.csr_array(m.astype(float)))):
        cases += 1
        try:
            Htv = block_diagonalize({(0, 0): H0v, (1, 0): conv(np.array([[1, 2], [2, -1]])), (0, 1): H2v}, subspace_indices=[0, 1])[0]
            vals = [sympy.Matrix(Htv[i, i, n, m]).applyfunc(lambda x: NOF.from_expr(x).simplify()) if Htv[i, i, n, m] is not zero else None
                    for i in range(2) for n, m in ((1, 0), (2, 0), (1, 1), (2, 1))]
            if refv is None:
                refv = vals
            else:
                for g_, r_ in zip(vals, refv):
                    if (g_ is None) != (r_ is None) or (g_ is not None and not all(NOF.from_expr(sympy.nsimplify(x - y, rational=True)).simplify().is_zero for x, y in zip(g_, r_))):
                        fail("secondq", "operator-valued H_0: the value type of a c-number perturbation changes H_tilde", value_type=vname, got=str(g_)[:200], want=str(r_)[:200])
                        break
        except Exception as ex:  # noqa: BLE001
            fail("secondq", "operator-valued H_0 with a numeric perturbation raised", value_type=vname, error=repr(ex)[:300])
    # operator-valued elimination masks (incl. a symbolic power) against boolean masks on the truncated matrices
    k = sympy.symbols("k", integer=True, nonnegative=True)
    D, N = 12, 3
    rep = Rep([a], D=D)
    H0 = sympy.Matrix([[Na + R(3, 14), 0], [0, Na - R(3, 14)]])
    H1 = sympy.Matrix([[0, a + Dagger(a)], [a + Dagger(a), 0]])
    lab = np.arange(D)
    dn = lab.reshape(-1, 1) - lab           # row occupation minus column occupation
    for mname, mask, elim in (
        ("first-order terms only", sympy.Matrix([[0, a + Dagger(a)], [a + Dagger(a), 0]]), lambda i, j: (i != j) * (np.abs(dn) == 1)),
        ("creation powers above / annihilation below", sympy.Matrix([[0, Dagger(a) ** k], [a ** k, 0]]),
         lambda i, j: ((i, j) == (0, 1)) * (dn >= 0) + ((i, j) == (1, 0)) * (dn <= 0)),
    ):
        cases += 1
        try:
            Ht, U, Ud = block_diagonalize([H0, H1], fully_diagonalize=mask)
            el = np.zeros((2 * D, 2 * D), dtype=bool)
            for i in range(2):
                for j in range(2):
                    el[i * D:(i + 1) * D, j * D:(j + 1) * D] = np.asarray(elim(i, j), dtype=bool) * np.ones((D, D), dtype=bool)
            h0 = np.zeros((2 * D, 2 * D))
            h1 = np.zeros((2 * D, 2 * D), dtype=complex)
            for i in range(2):
                for j in range(2):
                    h0[i * D:(i + 1) * D, j * D:(j + 1) * D] = eval_expr(H0[i, j], rep, [a]).real
                    h1[i * D:(i + 1) * D, j * D:(j + 1) * D] = eval_expr(H1[i, j], rep, [a])
            Htn, Un, _ = block_diagonalize([h0, h1], fully_diagonalize={0: el})
            interior = rep.interior(2 * N + 2)
            cols = np.concatenate([interior, interior])
            for order in range(N + 1):
                for S, Sn, nm in ((Ht, Htn, "H_tilde"), (U, Un, "U")):
                    got = _block_matrix(rep, S[(0, 0, order)], (2, 2))
                    ref = Sn[(0, 0, order)]
                    from pymablock.series import zero as _zero, one as _one
                    ref = np.zeros((2 * D, 2 * D)) if ref is _zero else (np.eye(2 * D) if ref is _one else np.asarray(ref.toarray() if hasattr(ref, "toarray") else ref, dtype=complex))
                    err = np.abs(got[:, cols] - ref[:, cols]).max(initial=0)
                    if err > 1e-7 * max(1.0, np.abs(ref).max(initial=0)):
                        fail("secondq", "operator-valued elimination mask: result differs from the masked matrix computation", mask=mname, output=nm, order=order, err=float(err))
        except Exception:
            import traceback
            fail("secondq", "masked model raised", mask=mname, error=traceback.format_exc()[-900:])


for name in sections:
    fn = globals().get("section_" + name)
    if fn is None:
        continue
    try:
        fn()
    except Exception:
        import traceback
        fail(name, "battery section crashed", error=traceback.format_exc()[-1200:])
print(json.dumps({"cases": cases, "failures": failures}))
sys.exit(1 if failures else 0)
