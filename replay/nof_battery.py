"""Native bounded battery for NumberOrderedForm arithmetic and second quantization (C07, C08).

Oracle: independent matrix representation (concretiser/fock.py: truncated Fock space, Jordan-Wigner,
two-level spins, shift lattice), compared on states away from the truncation edge.
Usage: python nof_battery.py <repo-path> <section>[,...]      sections: algebra, convert, secondq
Bounds: <= 5 modes (boson, ladder, spin, 2-3 fermions), powers <= 2, Fock cutoff 6-7, fixed seeds.
"""
import itertools
import json
import random
import sys
import warnings

repo = sys.argv[1] if len(sys.argv) > 1 else "/repo"
sections = (sys.argv[2] if len(sys.argv) > 2 else "algebra,convert").split(",")
sys.path.insert(0, repo)
sys.path.insert(0, __file__.rsplit("/replay/", 1)[0])
warnings.simplefilter("ignore")
import numpy as np  # noqa: E402
import sympy  # noqa: E402
from sympy.physics.quantum import Dagger, pauli  # noqa: E402
from sympy.physics.quantum.boson import BosonOp  # noqa: E402
from sympy.physics.quantum.fermion import FermionOp  # noqa: E402

from pymablock.number_ordered_form import NumberOrderedForm as NOF, NumberOperator, LadderOp, generator_types  # noqa: E402
from concretiser.fock import Rep, max_shift, compare_on_interior  # noqa: E402

failures = []
cases = 0


def fail(section, what, **kw):
    if len(failures) < 40:
        failures.append(dict(section=section, what=what, **{k: repr(v)[:400] for k, v in kw.items()}))


def sort_ops(ops):
    return sorted(ops, key=lambda op: (generator_types.index(type(op)), str(op.name)))


def placeholders(ops):
    names = {BosonOp: "BosonOp", LadderOp: "LadderOp", pauli.SigmaMinus: "SigmaOpBase", FermionOp: "FermionOp"}
    return [sympy.Symbol(f"number_operator_placeholder_{o.name}_{names[type(o)]}", integer=True) for o in ops]


def rand_nof(rnd, ops, nterms=2):
    ph = placeholders(ops)
    terms = {}
    for _ in range(nterms):
        pw = []
        for o in ops:
            if isinstance(o, (BosonOp, LadderOp)):
                pw.append(rnd.choice([0, 0, 1, -1, 2, -2]))
            else:
                pw.append(rnd.choice([0, 0, 1, -1]))
        # canonical form: the coefficient does not depend on binary numbers whose power is non-zero
        usable = [p for p, o, w in zip(ph, ops, pw) if isinstance(o, (BosonOp, LadderOp)) or w == 0]
        coeff = sympy.Integer(rnd.choice([1, 2, -1, 3]))
        for p in usable:
            if rnd.random() < 0.4:
                coeff = coeff + rnd.choice([1, 2, -1]) * p
        if len(usable) >= 2 and rnd.random() < 0.3:
            coeff = coeff + usable[0] * usable[-1]
        terms[tuple(sympy.Integer(p) for p in pw)] = sympy.sympify(coeff)
    return NOF(ops, terms, validate=False)


def mat(rep, x):
    return rep.nof_matrix(x)


def section_algebra():
    global cases
    a, l = BosonOp("a"), LadderOp("l")
    s = pauli.SigmaMinus("s")
    c, d, e = FermionOp("c"), FermionOp("d"), FermionOp("e")
    for layout, D in (([a, c, d], 7), ([c, d, e], 2), ([a, l, s, c], 6), ([s, c, d], 2), ([a], 9), ([l, c], 7)):
        ops = sort_ops(layout)
        rep = Rep(ops, D=D)
        rnd = random.Random(len(ops) * 100 + D)
        for trial in range(12):
            x, y, z = rand_nof(rnd, ops), rand_nof(rnd, ops), rand_nof(rnd, ops, 1)
            cases += 1
            m = max_shift(x, y, z)
            X, Y, Z = mat(rep, x), mat(rep, y), mat(rep, z)
            checks = {
                "x*y": (x * y, X @ Y, m), "x+y": (x + y, X + Y, m), "x-y": (x - y, X - Y, m), "-x": (-x, -X, m),
                "(x*y)*z": ((x * y) * z, X @ Y @ Z, m), "x*(y*z)": (x * (y * z), X @ Y @ Z, m),
                "x*(y+z)": (x * (y + z), X @ (Y + Z), m), "(x+y)*z": ((x + y) * z, (X + Y) @ Z, m),
                "adjoint(x*y)": (Dagger(x * y), None, m), "x**2": (x ** 2, X @ X, m), "x**3": (x ** 3, X @ X @ X, m),
            }
            for nm, (got, want, marg) in checks.items():
                try:
                    if nm == "adjoint(x*y)":
                        # the adjoint reverses products: (xy)^dagger = y^dagger x^dagger (compared inside the algebra)
                        want = mat(rep, Dagger(y) * Dagger(x))
                    err = compare_on_interior(rep, mat(rep, got), want, 2 * marg + 1)
                    if err > 1e-7:
                        fail("algebra", f"{nm} differs from the matrix representation", layout=[str(o) for o in ops], x=x.terms, y=y.terms, z=z.terms, err=err)
                except Exception as ex:
                    fail("algebra", f"{nm} raised", layout=[str(o) for o in ops], error=repr(ex)[:300])
            # adjoint of a single term against the conjugate transpose (normalised representation)
            try:
                err = compare_on_interior(rep, mat(rep, Dagger(x)), X.conj().T, 2 * m + 1)
                err2 = compare_on_interior(rep, mat(rep, Dagger(x)).conj().T, X, 2 * m + 1)
                if min(err, err2) > 1e-7:
                    fail("algebra", "adjoint differs from the conjugate transpose", layout=[str(o) for o in ops], x=x.terms, err=min(err, err2))
            except Exception as ex:
                fail("algebra", "adjoint raised", error=repr(ex)[:300])


def section_convert():
    global cases
    a, b = BosonOp("a"), BosonOp("b")
    l = LadderOp("l")
    c, d = FermionOp("c"), FermionOp("d")
    s = pauli.SigmaMinus("s")
    Na, Nc = NumberOperator(a), NumberOperator(c)
    exprs = [
        (a * Dagger(a) * a, [a]), (Dagger(a) ** 2 * a ** 3 + 2 * Na, [a]), ((a + Dagger(a)) ** 3, [a]), (Na * a * a * Dagger(a), [a]),
        (a * Dagger(b) * b * Dagger(a), [a, b]), (c * Dagger(d) + Dagger(d) * c, [c, d]), (d * c * Dagger(c) * Dagger(d), [c, d]),
        (Dagger(c) * c * d + d * Nc, [c, d]), (a * c * Dagger(a) * Dagger(c) + Na * Nc, [a, c]), (pauli.SigmaX("s") * pauli.SigmaZ("s"), [s]),
        (pauli.SigmaY("s") * pauli.SigmaMinus("s") + pauli.SigmaZ("s"), [s]), (l * Dagger(l) + Dagger(l) ** 2 * l, [l]),
        ((a * Dagger(c) + c * Dagger(a)) ** 2, [a, c]), (sympy.exp(Na) * a, [a]),
    ]
    for expr, ops in exprs:
        cases += 1
        ops = sort_ops(ops)
        try:
            x = NOF.from_expr(expr)
            back = NOF.from_expr(x.as_expr())
            if list(back.operators) != list(x.operators):
                back = back._expand_operators(x.operators)
            rep = Rep(list(x.operators), D=9)
            m = max_shift(x) + 3
            # independent evaluation of the original expression by substituting matrices
            M = eval_expr(expr, rep, list(x.operators))
            err = compare_on_interior(rep, mat(rep, x), M, m)
            if err > 1e-6:
                fail("convert", "from_expr differs from the matrix evaluation of the expression", expr=expr, nof=x.terms, err=err)
            err = compare_on_interior(rep, mat(rep, back), mat(rep, x), m)
            if err > 1e-7:
                fail("convert", "as_expr / from_expr round trip changes the operator", expr=expr, err=err)
        except Exception as ex:
            fail("convert", "conversion raised", expr=expr, error=repr(ex)[:300])


def eval_expr(expr, rep, ops):
    """Matrix of a sympy operator expression, independently of NumberOrderedForm."""
    idx = {o: i for i, o in enumerate(ops)}
    I = np.eye(rep.dim, dtype=complex)

    def ann(o):
        return rep.ann(idx[o])

    def ev(e):
        if isinstance(e, sympy.Add):
            return sum((ev(x) for x in e.args), np.zeros_like(I))
        if isinstance(e, sympy.Mul):
            out = I
            for x in e.args:
                out = out @ ev(x)
            return out
        if isinstance(e, sympy.Pow):
            return np.linalg.matrix_power(ev(e.base), int(e.exp))
        if isinstance(e, (BosonOp, FermionOp, LadderOp)):
            g = type(e)(e.name)
            return ann(g) if e.is_annihilation else ann(g).conj().T
        if isinstance(e, pauli.SigmaMinus):
            return ann(pauli.SigmaMinus(e.name))
        if isinstance(e, pauli.SigmaPlus):
            return ann(pauli.SigmaMinus(e.name)).conj().T
        if isinstance(e, pauli.SigmaX):
            m = ann(pauli.SigmaMinus(e.name))
            return m + m.conj().T
        if isinstance(e, pauli.SigmaY):
            m = ann(pauli.SigmaMinus(e.name))
            return 1j * m - 1j * m.conj().T
        if isinstance(e, pauli.SigmaZ):
            m = ann(pauli.SigmaMinus(e.name))
            return 2 * (m.conj().T @ m) - I
        if isinstance(e, NumberOperator):
            g = [o for o in ops if o.name == e.name][0]
            return np.diag(rep.number_diag(idx[g])).astype(complex)
        if isinstance(e, sympy.exp):
            return np.diag(np.exp(np.diag(ev(e.args[0]))))
        if e.is_number:
            return complex(e) * I
        raise ValueError(f"cannot evaluate {e!r}")
    return ev(sympy.sympify(expr))


for name in sections:
    fn = globals().get("section_" + name)
    if fn is None:
        continue
    try:
        fn()
    except Exception:
        import traceback
        fail(name, "battery section crashed", error=traceback.format_exc()[-1200:])
print(json.dumps({"cases": cases, "failures": failures}))
sys.exit(1 if failures else 0)
