"""Native bounded battery at the level of block_diagonalize (C01-C05, C13-C15, C20).

Not a deciding step: replay source for failed obligations and labelled bounded stand-in.
Usage: python bd_battery.py <repo-path> <section>[,<section>...]
Sections: herm, nonherm, unique, spectrum, multi, formats, covariance, illposed
Bounds: <= 3 blocks, block sizes <= 3, <= 2 parameters, total order <= 3 (4 for single parameter),
dense / sparse / exact-rational symbolic values, masks from a fixed family.
Oracle: the defining equations, evaluated with an independent Cauchy product; never read off H_tilde.
"""
import itertools
import json
import sys
import warnings

repo = sys.argv[1] if len(sys.argv) > 1 else "/repo"
sections = (sys.argv[2] if len(sys.argv) > 2 else "herm,nonherm,unique,spectrum").split(",")
sys.path.insert(0, repo)
warnings.simplefilter("ignore")
import numpy as np  # noqa: E402
import sympy  # noqa: E402
from scipy import sparse  # noqa: E402

from pymablock import block_diagonalize  # noqa: E402
from pymablock.series import zero, one, BlockSeries  # noqa: E402

failures = []
cases = 0
import os  # noqa: E402
THOROUGH = os.environ.get("VERIF_TIER", "quick") == "thorough"
_S = int(os.environ.get("VERIF_SEED", "0") or 0)
# thorough tier: every section is repeated with three further families of random perturbations derived from VERIF_SEED
OFFSETS = [0] + ([1000 + 7 * _S, 2000 + 7 * _S, 3000 + 7 * _S] if THOROUGH else [])
OFF = 0


def fail(section, what, **kw):
    if len(failures) < 40:
        failures.append(dict(section=section, what=what, **{k: repr(v)[:400] for k, v in kw.items()}))


def dense(x, shape):
    if x is zero:
        return np.zeros(shape, dtype=complex)
    if x is one:
        return np.eye(shape[0], dtype=complex)
    if sparse.issparse(x):
        return np.asarray(x.toarray(), dtype=complex)
    if isinstance(x, sympy.MatrixBase):
        return np.array(x.tolist(), dtype=complex)
    if isinstance(x, np.ma.MaskedArray):
        x = x.filled(0)
    return np.asarray(x, dtype=complex).reshape(shape)


def orders_upto(nparam, maxtot):
    return [o for o in itertools.product(range(maxtot + 1), repeat=nparam) if sum(o) <= maxtot]


class Problem:
    """H(lambda) = diag(E) + sum_k lambda_k H_k (+ optional second-order terms), split into blocks."""

    def __init__(self, E, sub, nparam=1, hermitian=True, seed=0, fmt="dense", second_order=False, cplx=True, h0_dtype=complex):
        self.h0_dtype = h0_dtype
        self.E = np.array(E, dtype=float if np.isrealobj(np.array(E)) else complex)
        self.sub = list(sub)
        self.n = len(E)
        self.nparam = nparam
        self.hermitian = hermitian
        rng = np.random.default_rng(seed + OFF)
        self.terms = {}
        for k in range(nparam):
            m = rng.integers(-3, 4, size=(self.n, self.n)).astype(complex)
            if cplx:
                m = m + 1j * rng.integers(-2, 3, size=(self.n, self.n))
            if hermitian:
                m = m + m.conj().T
            order = tuple(1 if q == k else 0 for q in range(nparam))
            self.terms[order] = m / 4
        if second_order:
            m = rng.integers(-2, 3, size=(self.n, self.n)).astype(complex)
            if hermitian:
                m = m + m.conj().T
            self.terms[tuple(2 if q == 0 else 0 for q in range(nparam))] = m / 4
        self.fmt = fmt
        self.nb = max(sub) + 1
        self.idx = [[a for a in range(self.n) if sub[a] == b] for b in range(self.nb)]

    def hamiltonian(self):
        conv = {"dense": lambda x: np.array(x), "sparse": lambda x: sparse.csr_array(x),
                # real dtype wherever the values are real (e.g. real hoppings next to a complex H_0 with gain / loss)
                "dense-real": lambda x: np.array(np.real_if_close(x)), "sparse-real": lambda x: sparse.csr_array(np.real_if_close(x)),
                "coo-real": lambda x: sparse.coo_array(np.real_if_close(x)),
                "sympy": lambda x: sympy.Matrix(np.asarray(x).shape[0], np.asarray(x).shape[1], lambda i, j: sympy.nsimplify(complex(np.asarray(x)[i, j]), rational=True))}[self.fmt]
        d = {tuple([0] * self.nparam): conv(np.diag(self.E).astype(complex) if self.h0_dtype is complex else np.diag(self.E.real).astype(self.h0_dtype))}
        for o, m in self.terms.items():
            d[o] = conv(m)
        return d

    def H_order(self, o):
        if sum(o) == 0:
            return np.diag(self.E).astype(complex)
        return self.terms.get(tuple(o), np.zeros((self.n, self.n), dtype=complex))

    def assemble(self, series, o):
        """Full matrix of a block series at multi-order o."""
        out = np.zeros((self.n, self.n), dtype=complex)
        for i in range(self.nb):
            for j in range(self.nb):
                blk = dense(series[(i, j) + tuple(o)], (len(self.idx[i]), len(self.idx[j])))
                out[np.ix_(self.idx[i], self.idx[j])] = blk
        return out


def cauchy(fs, o, nparam):
    """Independent Cauchy product of functions order -> matrix."""
    if len(fs) == 1:
        return fs[0](o)
    total = 0
    for m in itertools.product(*[range(k + 1) for k in o]):
        rest = tuple(a - b for a, b in zip(o, m))
        total = total + fs[0](m) @ cauchy(fs[1:], rest, nparam)
    return total


def keep_mask(pb, fully, mask_dict, atol):
    """Boolean matrix of kept elements (True = kept) in the full basis."""
    keep = np.zeros((pb.n, pb.n), dtype=bool)
    for b in range(pb.nb):
        ix = pb.idx[b]
        sub = np.ones((len(ix), len(ix)), dtype=bool)
        if mask_dict is not None and b in mask_dict:
            sub = ~np.asarray(mask_dict[b], dtype=bool)
        elif fully is not None and b in fully:
            e = pb.E[ix]
            sub = np.abs(e.reshape(-1, 1) - e) <= atol      # the library keeps what is equal within atol (inclusive: atol = 0 means exactly equal)
        keep[np.ix_(ix, ix)] = sub
    return keep


def check_problem(section, pb, maxtot, fully=(), mask_dict=None, atol=1e-12, tol=1e-8, label=""):
    global cases
    cases += 1
    kw = {}
    if mask_dict is not None:
        kw["fully_diagonalize"] = mask_dict
    elif fully:
        kw["fully_diagonalize"] = tuple(fully)
    try:
        Ht, U, Ui = block_diagonalize(pb.hamiltonian(), subspace_indices=pb.sub, hermitian=pb.hermitian, atol=atol, **kw)
    except Exception as e:
        fail(section, "block_diagonalize raised on a well-posed problem", label=label, error=e)
        return None
    single = pb.nb == 1 and not fully and mask_dict is None
    keep = keep_mask(pb, set(fully) if fully else ({0} if single else None), mask_dict, atol)
    fU = lambda o: pb.assemble(U, o)      # noqa: E731
    fUi = lambda o: pb.assemble(Ui, o)    # noqa: E731
    fH = pb.H_order
    ident = lambda o: np.eye(pb.n) if sum(o) == 0 else np.zeros((pb.n, pb.n))  # noqa: E731
    scale = 1.0
    for o in orders_upto(pb.nparam, maxtot):
        Hto = pb.assemble(Ht, o)
        scale = max(scale, np.abs(Hto).max(), np.abs(fU(o)).max())
        t = tol * scale ** 2
        sim = cauchy([fUi, fH, fU], o, pb.nparam)
        if np.abs((sim - Hto)[keep]).max(initial=0) > t:
            fail(section, "U_inv H U differs from H_tilde on a kept element", label=label, order=o, err=np.abs((sim - Hto)[keep]).max())
        if np.abs(sim[~keep]).max(initial=0) > t:
            fail(section, "U_inv H U is not zero on an eliminated element", label=label, order=o, err=np.abs(sim[~keep]).max())
        if np.abs(Hto[~keep]).max(initial=0) > t:
            fail(section, "H_tilde is not zero on an eliminated element", label=label, order=o)
        for nm, a, b in (("U_inv U", fUi, fU), ("U U_inv", fU, fUi)):
            if np.abs(cauchy([a, b], o, pb.nparam) - ident(o)).max() > t:
                fail(section, f"{nm} != 1", label=label, order=o)
        if pb.hermitian:
            if np.abs(fUi(o) - fU(o).conj().T).max() > t:
                fail(section, "third output is not the adjoint of U", label=label, order=o)
            if np.abs(Hto - Hto.conj().T).max() > t:
                fail(section, "H_tilde is not Hermitian", label=label, order=o)
            g = fU(o) - fU(o).conj().T
        else:
            g = fU(o) - fUi(o)
        if sum(o) and np.abs(g[keep]).max(initial=0) > t:
            fail(section, "gauge: U - U_inv has a kept element", label=label, order=o, err=np.abs(g[keep]).max())
    return Ht, U, Ui


def mask_family(pb, b, seed):
    ix = pb.idx[b]
    m = len(ix)
    rng = np.random.default_rng(seed)
    elim = rng.random((m, m)) < 0.6
    elim = elim | elim.T
    np.fill_diagonal(elim, False)
    e = pb.E[ix]
    elim &= ~(np.abs(e.reshape(-1, 1) - e) < 1e-9)   # never eliminate between equal energies
    return elim


def _rotated_basis_cases():
    """C01 with general (non-coordinate) subspace_eigenvectors: H_0 is not diagonal in the basis the terms are given in, the eigenvectors mix the basis states, and the perturbation
    contains terms that are DIAGONAL in the original basis (on-site potentials: they do couple the subspaces).  U^dagger H U is formed from the returned U and independently projected
    input terms."""
    global cases
    Hd = np.array([[1, 1, 1, 1], [1, 1, -1, -1], [1, -1, 1, -1], [1, -1, -1, 1]], dtype=float) / 2
    Q6 = np.eye(6)
    Q6[:4, :4] = Hd
    Q6[4:, 4:] = np.array([[3, 4], [-4, 3]]) / 5
    for name, Q, E, sizes in (("4 levels, 2 blocks", Hd, [0.0, 1.0, 3.0, 4.5], (2, 2)), ("6 levels, 3 blocks", Q6, [0.0, 1.0, 3.0, 4.5, 7.0, 9.5], (2, 2, 2)),
                              ("4 levels, blocks 1 + 3", Hd, [0.0, 2.0, 3.0, 4.5], (1, 3))):
        n = len(E)
        H0 = Q @ np.diag(E) @ Q.T
        onsite = np.diag(np.arange(1, n + 1) / 4.0)                       # diagonal in the original basis, not in the eigenbasis
        rr = np.random.default_rng(5)
        M = rr.integers(-3, 4, size=(n, n)) / 8
        generic = (M + M.T) / 2
        bounds = np.cumsum((0,) + sizes)
        vecs = [Q[:, bounds[k]:bounds[k + 1]] for k in range(len(sizes))]
        for pert_name, terms in (("on-site only", [onsite]), ("on-site + generic second order", [onsite, generic]), ("generic + on-site second order", [generic, onsite])):
            for fmt, conv in (("dense", lambda x: x), ("csr", sparse.csr_array)):
                for fully in ((), (0,)) if sizes[0] > 1 else ((),):
                    cases += 1
                    try:
                        kw = {"fully_diagonalize": fully} if fully else {}
                        ham = {(0,): conv(H0)}
                        ham.update({(k_ + 1,): conv(t) for k_, t in enumerate(terms)})       # one parameter: term k is the order-k coefficient
                        Ht, U, Ud = block_diagonalize(ham, subspace_eigenvectors=vecs, **kw)
                        Hn = {0: Q.T @ H0 @ Q}
                        for k_, t in enumerate(terms):
                            Hn[k_ + 1] = Q.T @ t @ Q

                        def full(S, o):
                            out = np.zeros((n, n), dtype=complex)
                            for i in range(len(sizes)):
                                for j in range(len(sizes)):
                                    v = S[(i, j, o)]
                                    blk = np.zeros((sizes[i], sizes[j])) if v is zero else (np.eye(sizes[i]) if v is one else (v.toarray() if sparse.issparse(v) else np.asarray(v)))
                                    out[bounds[i]:bounds[i + 1], bounds[j]:bounds[j + 1]] = blk
                            return out
                        N = 3
                        Us, Uds, Hts = [full(U, o) for o in range(N + 1)], [full(Ud, o) for o in range(N + 1)], [full(Ht, o) for o in range(N + 1)]
                        for o in range(N + 1):
                            tot = np.zeros((n, n), dtype=complex)
                            for a_ in range(o + 1):
                                for b_ in range(o - a_ + 1):
                                    c_ = o - a_ - b_
                                    if b_ in Hn:
                                        tot = tot + Uds[a_] @ Hn[b_] @ Us[c_]
                            err = np.abs(tot - Hts[o]).max()
                            off = max((np.abs(tot[bounds[i]:bounds[i + 1], bounds[j]:bounds[j + 1]]).max() for i in range(len(sizes)) for j in range(len(sizes)) if i != j), default=0.0)
                            if err > 1e-9 or off > 1e-9:
                                fail("herm", "general eigenvector basis: U^dagger H U (from independently projected input terms) differs from H_tilde or has eliminated elements",
                                     problem=name, perturbation=pert_name, fmt=fmt, fully=fully, order=o, err=float(err), eliminated=float(off))
                                break
                    except Exception as e:  # noqa: BLE001
                        fail("herm", "general eigenvector basis raised", problem=name, perturbation=pert_name, fmt=fmt, fully=fully, error=repr(e)[:300])


def section_herm():
    _rotated_basis_cases()
    layouts = [
        ([0.0, 1.0, 3.0, 4.5], [0, 0, 1, 1]),
        ([0.0, 0.0, 2.0, 2.0, 5.0], [0, 0, 1, 1, 2]),
        ([0.0, 1.0, 1.0, 2.5], [0, 0, 0, 0]),
        ([0.0, 2.0, 3.5], [0, 1, 2]),
        ([1.0, 1.0, 4.0, 1.0 + 2.0, 7.0], [0, 0, 1, 1, 1]),
        ([0.1 + 0.2, 0.3, 2.0, 3.0], [0, 0, 1, 1]),        # degenerate within atol but not bit-identical
        ([0.0, 1.0, 0.0, 2.0, 5.0], [0, 0, 0, 0, 1]),        # degenerate level on non-adjacent states
    ]
    for li, (E, sub) in enumerate(layouts):
        for fmt in ("dense", "sparse"):
            for nparam, maxtot in ((1, 3), (2, 2)):
                pb = Problem(E, sub, nparam=nparam, hermitian=True, seed=li, fmt=fmt, second_order=(li % 2 == 0))
                nb = pb.nb
                check_problem("herm", pb, maxtot, label=f"layout{li}/{fmt}/p{nparam}/plain")
                for b in range(nb):
                    if len(pb.idx[b]) > 1:
                        check_problem("herm", pb, maxtot, fully=(b,), label=f"layout{li}/{fmt}/p{nparam}/fully{b}")
                        md = {b: mask_family(pb, b, seed=li + b)}
                        check_problem("herm", pb, maxtot, mask_dict=md, label=f"layout{li}/{fmt}/p{nparam}/mask{b}")
                if nb > 1:
                    check_problem("herm", pb, maxtot, fully=tuple(range(nb)), label=f"layout{li}/{fmt}/p{nparam}/fullyall")
    # an identically zero H_0 block at every position (its energies are represented by a 0-d array), dense / sparse / symbolic values
    for E, sub in (([1.0, 2.0, 0.0, 0.0], [0, 0, 1, 1]), ([0.0, 0.0, 1.0, 2.0], [0, 0, 1, 1]), ([1.0, 2.0, 3.0, 0.0, 0.0], [0, 0, 0, 1, 1]),
                   ([2.0, 0.0, 0.0, 0.0, 5.0], [0, 1, 1, 1, 2])):
        for fmt in ("dense", "sparse", "sympy"):
            pb = Problem(E, sub, seed=88, fmt=fmt, cplx=(fmt != "sympy"))
            check_problem("herm", pb, 2, label=f"zero-block/{E}/{fmt}")
    # masks that eliminate nothing (explicit all-False masks, as dict or bare array): the unique least-action answer is U = 1, H_tilde = H
    for E, sub in (([0.0, 1.0, 2.5], [0, 0, 0]), ([0.0, 1.0, 3.0, 4.5], [0, 0, 1, 1])):
        pb = Problem(E, sub, seed=77)
        for b in range(pb.nb):
            m = len(pb.idx[b])
            check_problem("herm", pb, 3, mask_dict={b: np.zeros((m, m), dtype=bool)}, label=f"empty-mask/block{b}/nb{pb.nb}")
        if pb.nb == 1:
            global cases
            cases += 1
            Ht, U, Ud = block_diagonalize(pb.hamiltonian(), subspace_indices=pb.sub, fully_diagonalize=np.zeros((pb.n, pb.n), dtype=bool))
            for o in range(1, 4):
                if np.abs(pb.assemble(U, (o,))).max() > 1e-9 or np.abs(pb.assemble(Ht, (o,)) - pb.H_order((o,))).max() > 1e-9:
                    fail("herm", "single block with a mask that eliminates nothing: U != 1 or H_tilde != H", order=o)
    # H_0 supplied with an integer or real dtype (energy denominators must not be formed in integer arithmetic), dense and sparse,
    # through subspace_indices, several blocks and the single-block default
    for h0_dtype in (int, float, np.int32):
        for fmt in ("dense", "sparse"):
            for E, sub in (([0, 2, 5, 9], [0, 0, 1, 1]), ([0, 3, 5, 9], [0, 0, 0, 0]), ([1, 4, 4, 8, 11], [0, 1, 1, 1, 2])):
                pb = Problem([float(x) for x in E], sub, seed=55, fmt=fmt, h0_dtype=h0_dtype)
                nm = getattr(h0_dtype, "__name__", str(h0_dtype))
                check_problem("herm", pb, 3, label=f"h0-dtype-{nm}/{fmt}/{E}/plain")
                if pb.nb > 1:
                    check_problem("herm", pb, 3, fully=tuple(range(pb.nb)), label=f"h0-dtype-{nm}/{fmt}/{E}/fullyall")
    # energies of large magnitude whose spacing is far below their size but far above atol (a regular perturbation problem; relative
    # closeness of two levels is not degeneracy)
    for E, sub, fully in (([0.0, 200000.0, 200001.0], [0, 0, 0], ()), ([0.0, 200000.0, 200001.5, 300000.0], [0, 0, 0, 1], (0,)),
                          ([1.0e6, 1.0e6 + 2.0, 5.0, 7.0], [0, 0, 1, 1], (0, 1))):
        for fmt in ("dense", "sparse"):
            pb = Problem(E, sub, seed=66, fmt=fmt)
            check_problem("herm", pb, 2, fully=fully, tol=1e-13, label=f"large-energies/{E}/{fmt}")
    # weak perturbations: scaling H_1 by eps = 2^-k scales every order-n block of H_tilde, U, U^dagger by eps^n exactly (powers of two), so
    # errors stay proportional to the size of the terms at every order - no absolute cut-off may enter anywhere
    for E, sub, fully in (([0.0, 1.0, 3.0, 4.5], [0, 0, 1, 1], ()), ([0.0, 1.0, 2.5, 4.0], [0, 0, 0, 0], ()), ([0.0, 1.0, 3.0, 4.5, 7.0], [0, 0, 1, 1, 2], (2, 0))):
        for fmt in ("dense", "sparse"):
            pb = Problem(E, sub, seed=91, fmt=fmt)
            kw = {"fully_diagonalize": tuple(fully)} if fully else {}
            ref = block_diagonalize(pb.hamiltonian(), subspace_indices=pb.sub, **kw)
            for k in (13, 20, 30, 36):        # 2^-30, 2^-36: every entry of the perturbation lies between atol = 1e-12 and numpy's default tolerance 1e-8
                cases += 1
                eps = 2.0 ** -k
                pbw = Problem(E, sub, seed=91, fmt=fmt)
                pbw.terms = {o: eps * m for o, m in pb.terms.items()}
                oth = block_diagonalize(pbw.hamiltonian(), subspace_indices=pb.sub, **kw)
                for o in range(0, 6 if fmt == "dense" else 5):
                    for sidx, nm in enumerate(("H_tilde", "U", "U_dagger")):
                        want = eps ** o * pb.assemble(ref[sidx], (o,))
                        got = pbw.assemble(oth[sidx], (o,))
                        size = max(np.abs(want).max(), eps ** o)
                        if np.abs(got - want).max() > 1e-10 * size:
                            fail("herm", f"{nm} for a perturbation scaled by 2^-{k} is not 2^-{k}n times the unscaled result (error not proportional to the size of the terms)",
                                 layout=(E, sub, fully), fmt=fmt, order=o, err=float(np.abs(got - want).max()), size=float(size))
    # symbolic H_0 whose degenerate levels are written differently (Integer 1 and Float 1.0): mask and solver must agree on what is degenerate
    cases += 1
    try:
        xs = sympy.Symbol("x", real=True)
        H1s = sympy.Matrix([[0, 2, 1], [2, 0, 1], [1, 1, 0]])
        outs = []
        for h0 in (sympy.diag(1, sympy.Float(1.0), 3), sympy.diag(1, 1, 3)):
            Hs, Us, _ = block_diagonalize(h0 + xs * H1s, symbols=[xs])
            outs.append([np.array(sympy.Matrix(Hs[0, 0, k]).subs(xs, 1).tolist(), dtype=complex) if Hs[0, 0, k] is not zero else np.zeros((3, 3)) for k in range(3)])
        for k in range(3):
            if np.abs(outs[0][k] - outs[1][k]).max() > 1e-9:
                fail("herm", "symbolic H_0 = diag(1, 1.0, 3): H_tilde differs from the result for diag(1, 1, 3) (the two spellings of the degenerate level are treated differently by mask and solver)",
                     order=k, err=float(np.abs(outs[0][k] - outs[1][k]).max()))
    except Exception as e:
        fail("herm", "symbolic H_0 with Integer / Float spelling of a degenerate level raised", error=repr(e)[:300])
    # pre-blocked input (nested block lists) whose blocks are legacy scipy.sparse MATRIX objects at every order (no mixing with dense values, see F-SPM),
    # with and without full diagonalization: the masks must be applied element-wise whatever the container class
    for conv_name, conv in (("csr_matrix", sparse.csr_matrix), ("coo_matrix", sparse.coo_matrix), ("csr_array", sparse.csr_array)):
        for fully in ((), (0,), (0, 1)):
            cases += 1
            pb = Problem([0.0, 0.0, 1.5, 3.0, 4.0, 6.5], [0, 0, 0, 1, 1, 1], seed=123)
            try:
                blocks = lambda M: [[conv(np.asarray(M)[np.ix_(pb.idx[i], pb.idx[j])]) for j in range(2)] for i in range(2)]  # noqa: E731
                ham = [blocks(pb.H_order((0,)))] + [blocks(pb.H_order((1,)))]
                ham[0][0][1] = ham[0][1][0] = zero
                kw = {"fully_diagonalize": fully} if fully else {}
                Ht, U, Ui = block_diagonalize(ham, **kw)
                refH, refU, _ = block_diagonalize([pb.H_order((0,)), pb.H_order((1,))], subspace_indices=pb.sub, **kw)
                for o in range(4):
                    for nm, a, b in (("H_tilde", Ht, refH), ("U", U, refU)):
                        if np.abs(pb.assemble(a, (o,)) - pb.assemble(b, (o,))).max() > 1e-9:
                            fail("herm", f"pre-blocked input with {conv_name} blocks: {nm} differs from the dense computation", order=o, fully=fully,
                                 err=float(np.abs(pb.assemble(a, (o,)) - pb.assemble(b, (o,))).max()))
            except Exception as e:
                fail("herm", f"pre-blocked input with {conv_name} blocks raised", fully=fully, error=repr(e)[:300])
    # chain of near-degeneracies with a large tolerance (kept pattern not transitive)
    pb = Problem([0.0, 0.1, 0.2, 1.0, 2.0], [0, 0, 0, 0, 0], seed=3)
    check_problem("herm", pb, 3, fully=(0,), atol=0.15, label="chain/atol0.15")
    # longer chains: every three consecutive levels lie within atol, the whole chain does not (kept pattern not transitive, yet no level is within atol of both
    # neighbours while those are farther apart); sorted and unsorted, in the second of two blocks, sparse
    for E, sub, fully, fmt, lab in (([0.0, 0.125, 0.25, 0.375, 2.0], [0] * 5, (0,), "dense", "chain4"), ([0.25, 2.0, 0.0, 0.375, 0.125], [0] * 5, (0,), "dense", "chain4/unsorted"),
                                    ([3.0, 5.0, 0.0, 0.125, 0.25, 0.375, 0.5], [0, 0, 1, 1, 1, 1, 1], (1,), "dense", "chain5/block1"),
                                    ([0.0, 0.125, 0.25, 0.375, 2.0], [0] * 5, (0,), "sparse", "chain4/sparse")):
        pb = Problem(E, sub, seed=4, fmt=fmt)
        check_problem("herm", pb, 2, fully=fully, atol=0.3, label=f"{lab}/atol0.3")
    # selective masks in a dictionary whose keys are not the positions of its entries: only the second block, blocks listed in descending order, a gap
    pb = Problem([0.0, 1.0, 2.5, 4.0, 5.5, 7.5, 9.0], [0, 0, 0, 1, 1, 1, 2], seed=21)
    chain = np.zeros((3, 3), dtype=bool)
    chain[0, 2] = chain[2, 0] = True          # kept pattern {0-1, 1-2}: not transitive
    other = np.zeros((3, 3), dtype=bool)
    other[0, 1] = other[1, 0] = True
    for lab, md in (("only-block-1", {1: chain}), ("descending-keys", {1: chain, 0: other}), ("ascending-keys", {0: other, 1: chain}), ("blocks-0-and-2", {2: np.zeros((1, 1), dtype=bool), 0: chain})):
        for fmt in ("dense", "sparse"):
            pbm = Problem([0.0, 1.0, 2.5, 4.0, 5.5, 7.5, 9.0], [0, 0, 0, 1, 1, 1, 2], seed=21, fmt=fmt)
            check_problem("herm", pbm, 3, mask_dict=md, label=f"mask-dictionary/{lab}/{fmt}")
    # symbolic (exact rational) values: several fully diagonalized blocks of the SAME size with different degeneracy patterns (a mask is a property of its block,
    # not of its shape), also selective masks that differ between equally sized blocks
    for E, sub, fully in (([0, 0, 1, 3], [0, 0, 1, 1], (0, 1)), ([1, 3, 0, 0], [0, 0, 1, 1], (0, 1)), ([0, 2, 2, 5, 7, 7], [0, 1, 1, 0, 2, 2], (0, 1, 2))):
        pb = Problem(E, sub, seed=31, fmt="sympy", cplx=False)
        check_problem("herm", pb, 2, fully=fully, label=f"sympy/equal-size-blocks/{E}")
    pb = Problem([0, 1, 3, 5, 8], [0, 0, 1, 1, 2], seed=32, fmt="sympy", cplx=False)
    none = np.zeros((2, 2), dtype=bool)
    swap = np.array([[False, True], [True, False]])
    check_problem("herm", pb, 2, mask_dict={0: none, 1: swap}, label="sympy/equal-size-blocks/different-masks")
    check_problem("herm", pb, 2, mask_dict={0: swap, 1: none}, label="sympy/equal-size-blocks/different-masks-reversed")
    # exact comparisons requested: atol = 0 (exactly degenerate and exactly zero entries only)
    for fmt in ("dense", "sparse"):
        pb = Problem([0.0, 0.0, 2.0, 3.5], [0, 0, 1, 1], seed=9, fmt=fmt)
        check_problem("herm", pb, 3, atol=0, label=f"atol0/{fmt}")
        check_problem("herm", pb, 2, fully=(0, 1), atol=0, label=f"atol0/full/{fmt}")


def section_nonherm():
    # inputs on which the shipped non-Hermitian algorithm is exact: block-degenerate H_0, or every block fully diagonalized
    layouts = [
        ([0.0, 0.0, 2.0, 2.0], [0, 0, 1, 1], ()),
        ([1.0, 1.0, 1.0, 4.0, 4.0], [0, 0, 0, 1, 1], ()),
        ([0.0, 3.0, 3.0, -2.0], [0, 1, 1, 2], ()),
        ([0.0, 1.0, 3.0, 4.5], [0, 0, 1, 1], (0, 1)),
        ([0.0 + 1.0j, 0.0 + 1.0j, 2.0 - 0.5j, 2.0 - 0.5j], [0, 0, 1, 1], ()),
        ([0.5j, 1.0, 3.0 + 1j, 4.5], [0, 0, 1, 1], (0, 1)),
    ]
    for li, (E, sub, fully) in enumerate(layouts):
        for fmt in ("dense", "sparse"):
            for nparam, maxtot in ((1, 3), (2, 2)):
                pb = Problem(E, sub, nparam=nparam, hermitian=False, seed=10 + li, fmt=fmt)
                check_problem("nonherm", pb, maxtot, fully=fully, label=f"nh{li}/{fmt}/p{nparam}")
    # complex energies (gain / loss) with REAL-dtype perturbations: the solution Y / (E_i - E_j) of a real right-hand side is complex
    for li in (4, 5):
        E, sub, fully = layouts[li]
        for fmt in ("dense-real", "sparse-real", "coo-real"):
            pb = Problem(E, sub, nparam=1, hermitian=False, seed=50 + li, fmt=fmt, cplx=False)
            check_problem("nonherm", pb, 3, fully=fully, label=f"nh{li}/{fmt}/real-perturbation")
    # asymmetric elimination masks (allowed without Hermiticity), dense and sparse values, on inputs where the shipped algorithm is exact:
    # a single block with a triangular mask
    for li, (E, upper) in enumerate((([0.0, 1.0, 2.5, 4.0], True), ([0.5j, 1.0, 3.0 + 1j], False))):
        n = len(E)
        m = np.triu(np.ones((n, n), dtype=bool), 1) if upper else np.tril(np.ones((n, n), dtype=bool), -1)
        for fmt in ("dense", "sparse"):
            pb = Problem(E, [0] * n, hermitian=False, seed=30 + li, fmt=fmt)
            check_problem("nonherm", pb, 3, mask_dict={0: m}, label=f"nh-asymmetric-mask{li}/{fmt}")
    # Hermitian input: both modes agree
    global cases
    for li, (E, sub) in enumerate([([0.0, 0.0, 2.0, 2.0], [0, 0, 1, 1]), ([0.0, 1.0, 3.0, 4.5], [0, 0, 1, 1])]):
        cases += 1
        pbh = Problem(E, sub, hermitian=True, seed=li)
        fully = () if li == 0 else (0, 1)
        kw = {"fully_diagonalize": fully} if fully else {}
        a = block_diagonalize(pbh.hamiltonian(), subspace_indices=sub, hermitian=True, **kw)
        b = block_diagonalize(pbh.hamiltonian(), subspace_indices=sub, hermitian=False, **kw)
        for s in range(3):
            for o in orders_upto(1, 3):
                if np.abs(pbh.assemble(a[s], o) - pbh.assemble(b[s], o)).max() > 1e-8:
                    fail("nonherm", "Hermitian input: non-Hermitian mode differs from Hermitian mode", layout=li, output=s, order=o)


def reference_solution(pb, keep, maxtot):
    """Independent order-by-order solution of: U unitary, (U^dagger H U) zero on eliminated elements, kept part of U - U^dagger zero."""
    n = pb.n
    Us = {}
    ords = sorted(orders_upto(pb.nparam, maxtot), key=sum)
    zero_o = tuple([0] * pb.nparam)
    Us[zero_o] = np.eye(n, dtype=complex)
    E = pb.E
    dE = E.reshape(-1, 1) - E
    for o in ords:
        if sum(o) == 0:
            continue
        fU = lambda q: Us.get(tuple(q), np.zeros((n, n), dtype=complex))            # noqa: E731
        fUd = lambda q: fU(q).conj().T                                             # noqa: E731
        # W_o from unitarity (Hermitian part), with U_o := 0 for the moment
        Us[o] = np.zeros((n, n), dtype=complex)
        W = -0.5 * cauchy([fUd, fU], o, pb.nparam)
        Us[o] = W
        rest = cauchy([fUd, pb.H_order, fU], o, pb.nparam)
        V = np.zeros((n, n), dtype=complex)
        elim = ~keep
        V[elim] = -rest[elim] / dE[elim] * (-1)   # H0 V - V H0 + rest = 0 on eliminated: V_ab = -rest_ab / (E_a - E_b)
        V[elim] = -rest[elim] / dE[elim]
        Us[o] = W + V
    Hts = {o: cauchy([lambda q: Us.get(tuple(q), np.zeros((n, n))).conj().T, pb.H_order, lambda q: Us.get(tuple(q), np.zeros((n, n)))], o, pb.nparam) for o in ords}
    return Us, Hts


def section_unique():
    global cases
    for li, (E, sub, fully) in enumerate([
        ([0.0, 1.0, 3.0, 4.5], [0, 0, 1, 1], ()),
        ([0.0, 1.0, 3.0, 4.5, 6.0, 8.0], [0, 0, 0, 1, 1, 1], (0,)),
        ([0.0, 0.0, 2.0, 3.0, 5.0], [0, 0, 1, 1, 2], (1,)),
        ([0.0, 2.0, 3.5, 4.0], [0, 0, 0, 0], ()),
    ]):
        for nparam, maxtot in ((1, 3), (2, 2)):
            cases += 1
            pb = Problem(E, sub, nparam=nparam, hermitian=True, seed=20 + li)
            kw = {"fully_diagonalize": fully} if fully else {}
            Ht, U, Ud = block_diagonalize(pb.hamiltonian(), subspace_indices=sub, **kw)
            single = pb.nb == 1
            keep = keep_mask(pb, set(fully) if fully else ({0} if single else None), None, 1e-12)
            Us, Hts = reference_solution(pb, keep, maxtot)
            for o in orders_upto(nparam, maxtot):
                if np.abs(pb.assemble(U, o) - Us[o]).max() > 1e-8:
                    fail("unique", "U differs from the independent least-action reference solution", layout=li, nparam=nparam, order=o,
                         err=np.abs(pb.assemble(U, o) - Us[o]).max())
                if np.abs(pb.assemble(Ht, o) - Hts[o] * keep).max() > 1e-8:
                    fail("unique", "H_tilde differs from the independent reference solution", layout=li, nparam=nparam, order=o)


def section_spectrum():
    global cases
    lam = sympy.Symbol("lam")
    for li, (E, sub, fully) in enumerate([
        ([0, 1, 3, 5], [0, 0, 1, 1], ()),
        ([0, 2, 3], [0, 0, 0], ()),
        ([0, 0, 2, 5], [0, 0, 1, 1], (1,)),
    ]):
        cases += 1
        n = len(E)
        rng = np.random.default_rng(30 + li)
        M = rng.integers(-2, 3, size=(n, n))
        M = M + M.T
        H0 = sympy.diag(*E)
        H1 = sympy.Matrix(M.tolist())
        N = 3
        kw = {"fully_diagonalize": fully} if fully else {}
        Ht, U, Ud = block_diagonalize([np.diag(np.array(E, dtype=float)), np.array(M, dtype=float)], subspace_indices=sub, **kw)
        pb = Problem(E, sub, seed=0)
        Heff = sympy.zeros(n, n)
        for o in range(N + 1):
            blk = pb.assemble(Ht, (o,))
            Heff += sympy.Matrix(np.round(blk.real, 12).tolist()).applyfunc(sympy.nsimplify) * lam ** o if False else sympy.Matrix(blk.real.tolist()) * lam ** o
        x = sympy.Symbol("x")
        p_eff = sympy.Poly((x * sympy.eye(n) - Heff).det(method="berkowitz").expand(), x, lam)
        p_ex = sympy.Poly((x * sympy.eye(n) - (H0 + lam * H1)).det(method="berkowitz").expand(), x, lam)
        diff = (p_eff - p_ex).as_dict()
        bad = {k: v for k, v in diff.items() if k[1] <= N and abs(complex(v)) > 1e-7}
        if bad:
            fail("spectrum", "characteristic polynomial of the truncated H_tilde differs from that of H below order N+1", layout=li, coefficients=list(bad.items())[:3])


def section_spectrum_symbolic():
    """C04 for symbolic input with TWO parameters and a non-separable dependence (x y term): the characteristic polynomial of the truncated H_tilde(x, y) agrees with
    that of H(x, y) in all coefficients of total order <= N (exact rational arithmetic; the oracle never looks at U)."""
    global cases
    x, y, t = sympy.symbols("x y t", real=True)
    lamv = sympy.Symbol("lam")
    for li, (E, sub, fully) in enumerate([([0, 1, 3], [0, 0, 0], ()), ([0, 2, 5], [0, 1, 1], ()), ([0, 0, 3], [0, 0, 1], (0,))]):
        cases += 1
        n = len(E)
        rng = np.random.default_rng(130 + li)

        def rmat():
            m = rng.integers(-2, 3, size=(n, n))
            return sympy.Matrix((m + m.T).tolist()) / 2
        A_, B_, C_ = rmat(), rmat(), rmat()
        H = sympy.diag(*E) + x * A_ + y * B_ + x * y * C_
        N = 3
        kw = {"fully_diagonalize": fully} if fully else {}
        try:
            Ht, U, Ud = block_diagonalize(H, symbols=[x, y], subspace_indices=sub, **kw)
            nb = max(sub) + 1
            idx = [[a for a in range(n) if sub[a] == b] for b in range(nb)]
            Heff = sympy.zeros(n, n)
            for o in orders_upto(2, N):
                blkm = sympy.zeros(n, n)
                for i in range(nb):
                    v = Ht[(i, i) + tuple(o)]
                    if v is zero:
                        continue
                    v = sympy.Matrix(v)
                    for a, ra in enumerate(idx[i]):
                        for b, rb in enumerate(idx[i]):
                            blkm[ra, rb] = v[a, b]
                Heff += blkm * (lamv ** sum(o))          # symbolic terms already carry their monomial x^a y^b
            p_eff = sympy.Poly((t * sympy.eye(n) - Heff).det(method="berkowitz").expand(), t, lamv, x, y)
            p_ex = sympy.Poly((t * sympy.eye(n) - H.subs({x: lamv * x, y: lamv * y}, simultaneous=True)).det(method="berkowitz").expand(), t, lamv, x, y)
            diff = (p_eff - p_ex).as_dict()
            bad = {k: v for k, v in diff.items() if k[1] <= N and sympy.simplify(v) != 0}
            if bad:
                fail("spectrum_symbolic", "symbolic two-parameter input: characteristic polynomial of the truncated H_tilde differs from that of H(x, y) below total order N+1", layout=li,
                     coefficients=[(k, str(v)) for k, v in list(bad.items())[:3]])
        except Exception as e:
            fail("spectrum_symbolic", "symbolic two-parameter problem raised", layout=li, error=repr(e)[:300])


def section_spectrum_sparse():
    """C04 with sparse values and degenerate levels inside a fully diagonalized block (degenerate perturbation theory):
    eigenvalues of the truncated H_tilde against exact eigenvalues, error must scale like lambda^(N+1)."""
    global cases
    rng = np.random.default_rng(45)
    for E, sub, fully in (([0.0, 0.0, 1.0, 2.5], [0, 0, 0, 0], ()), ([0.0, 0.0, 1.0, 3.0, 3.0], [0, 0, 0, 1, 1], (0,)), ([1.0, 1.0, 0.0, 0.0], [0, 0, 1, 1], (0, 1))):
        n = len(E)
        M = rng.normal(size=(n, n))
        M = (M + M.T) / 2
        for fmt in ("dense", "sparse"):
            cases += 1
            conv = np.array if fmt == "dense" else sparse.csr_array
            kw = {"fully_diagonalize": fully} if fully else {}
            try:
                Ht = block_diagonalize([conv(np.diag(E)), conv(M)], subspace_indices=sub, **kw)[0]
            except Exception as e:
                fail("spectrum_sparse", "block_diagonalize raised", fmt=fmt, E=E, error=repr(e)[:200])
                continue
            pb = Problem(E, sub, seed=0)
            errs = {}
            for N in (1, 2, 3):
                for lam in (0.02, 0.01):
                    Heff = sum(lam ** k * pb.assemble(Ht, (k,)) for k in range(N + 1))
                    exact = np.linalg.eigvalsh(np.diag(E) + lam * M)
                    errs[(N, lam)] = np.abs(np.sort(np.linalg.eigvals(Heff).real) - exact).max()
                if errs[(N, 0.02)] > 20 * 0.02 ** (N + 1) * max(1.0, np.abs(M).max()) ** (N + 1):
                    fail("spectrum_sparse", "spectrum of the truncated H_tilde is not exact to order N", fmt=fmt, E=E, fully=fully, order=N, err=float(errs[(N, 0.02)]))


def section_spectrum_implicit():
    """C04 for the implicit solvers: eigenvalues of the truncated H_tilde^AA against the exact lowest eigenvalues,
    relative to the truncation error of the explicit computation of the same problem."""
    global cases
    rng = np.random.default_rng(44)
    n, na = 10, 2
    M = rng.normal(size=(n, n))
    H0 = np.diag(np.concatenate([[0.0, 0.3], 2.0 + np.arange(n - na) * 0.7]))
    Q = np.linalg.qr(rng.normal(size=(n, n)))[0]
    H0 = Q @ H0 @ Q.T
    H1 = (M + M.T) / 2
    w, v = np.linalg.eigh(H0)
    vA, vB = v[:, :na], v[:, na:]
    variants = {
        "explicit": dict(subspace_eigenvectors=(vA, vB)),
        "implicit-direct": dict(subspace_eigenvectors=(vA,), direct_solver=True),
        "implicit-KPM": dict(subspace_eigenvectors=(vA,), direct_solver=False, solver_options={"atol": 1e-6}),
        "implicit-KPM-aux": dict(subspace_eigenvectors=(vA,), direct_solver=False, solver_options={"atol": 1e-6, "auxiliary_vectors": vB[:, :3]}),
    }
    errs = {}
    for nm, kw in variants.items():
        cases += 1
        try:
            with warnings.catch_warnings():
                warnings.simplefilter("ignore")
                Ht = block_diagonalize([sparse.csr_array(H0) if nm != "explicit" else H0, sparse.csr_array(H1) if nm != "explicit" else H1], **kw)[0]
                for N in (1, 2, 3):
                    for lam in (0.02, 0.01):
                        Heff = sum(lam ** k * dense(Ht[(0, 0, k)], (na, na)) for k in range(N + 1))
                        exact = np.linalg.eigvalsh(H0 + lam * H1)[:na]
                        errs[(nm, N, lam)] = np.abs(np.sort(np.linalg.eigvals(Heff).real) - exact).max()
        except Exception as e:
            fail("spectrum_implicit", "block_diagonalize raised", variant=nm, error=repr(e)[:300])
    for (nm, N, lam), e in errs.items():
        ref = errs.get(("explicit", N, lam))
        if nm != "explicit" and ref is not None and e > 10 * ref + 2e-5:
            fail("spectrum_implicit", "spectrum of the truncated H_tilde^AA deviates from the exact one far more than in the explicit computation",
                 variant=nm, order=N, lam=lam, err=float(e), explicit_err=float(ref))
    for N in (1, 2, 3):
        e1, e2 = errs.get(("explicit", N, 0.02)), errs.get(("explicit", N, 0.01))
        if e1 is not None and e2 is not None and e2 > 1e-13 and e1 / e2 < 2 ** (N + 1) / 3:
            fail("spectrum_implicit", "explicit truncation error does not scale like lambda^(N+1)", order=N, ratio=float(e1 / e2))


def section_inputs_untouched():
    """C10: the caller's input containers and values are never modified."""
    global cases
    rng = np.random.default_rng(91)
    n = 4
    E = np.array([0.0, 1.0, 3.0, 4.5])
    M = rng.normal(size=(n, n))
    M = M + M.T
    x = sympy.Symbol("x", real=True)
    makers = {
        "dense-diagonal": lambda: np.diag(E), "dense-full": lambda: np.diag(E) + 0.0, "csr": lambda: sparse.csr_array(np.diag(E)),
        "coo": lambda: sparse.coo_array(np.diag(E)), "dia": lambda: sparse.dia_array(np.diag(E)),
    }
    for hname, mk in makers.items():
        for container in ("dict-tuples", "list", "dict-monomials"):
            cases += 1
            h0, h1 = mk(), (M.copy() if "dense" in hname else sparse.csr_array(M))
            if container == "dict-tuples":
                ham = {(0,): h0, (1,): h1}
            elif container == "list":
                ham = [h0, h1]
            else:
                ham = {sympy.Integer(1): h0, x: h1}
            items = list(ham.items()) if isinstance(ham, dict) else list(enumerate(ham))
            snap = [(k, v, type(v), (v.toarray() if sparse.issparse(v) else np.array(v)).copy()) for k, v in items]
            try:
                Ht, U, Ud = block_diagonalize(ham, subspace_indices=[0, 0, 1, 1])
                for o in range(4):
                    Ht[0, 0, o], U[0, 1, o], Ud[1, 0, o]
            except Exception as e:
                fail("inputs_untouched", "block_diagonalize raised", value=hname, container=container, error=repr(e)[:200])
                continue
            now = list(ham.items()) if isinstance(ham, dict) else list(enumerate(ham))
            if len(now) != len(snap):
                fail("inputs_untouched", "the caller's container changed its length", value=hname, container=container)
                continue
            for (k, v, tp, arr), (k2, v2) in zip(snap, now):
                if k2 != k or v2 is not v or type(v2) is not tp:
                    fail("inputs_untouched", "an entry of the caller's container was replaced", value=hname, container=container, key=k, before=tp.__name__, after=type(v2).__name__)
                elif not np.array_equal((v2.toarray() if sparse.issparse(v2) else np.array(v2)), arr):
                    fail("inputs_untouched", "a value passed by the caller was modified in place", value=hname, container=container, key=k)


    # pre-blocked input whose sparse blocks store entries within atol and explicit zeros: the stored pattern and data of the caller's blocks stay as they are,
    # and a second computation from the same block objects with another atol does not depend on what the first one has evaluated
    for fmt in (sparse.csr_array, sparse.csc_array, sparse.coo_array):
        cases += 1
        try:
            def blocks_of(A):
                out = []
                for r in (slice(0, 2), slice(2, 4)):
                    row = []
                    for c in (slice(0, 2), slice(2, 4)):
                        d = A[r, c].copy()
                        b = sparse.coo_array(d)
                        # store every entry explicitly, zeros included
                        rr, cc = np.nonzero(np.ones_like(d))
                        row.append(fmt(sparse.coo_array((d[rr, cc], (rr, cc)), shape=d.shape)))
                    out.append(row)
                return out
            H0 = np.diag(E)
            H1 = M.copy()
            H1[0, 1] = H1[1, 0] = 3e-7        # between the two tolerances used below
            H1[2, 3] = H1[3, 2] = 5e-14       # within the default atol
            b0, b1 = blocks_of(H0), blocks_of(H1)
            b0[0][1] = b0[1][0] = zero
            snap = [(blk, blk.nnz, blk.toarray().copy(), np.array(blk.data).copy()) for row in b0 + b1 for blk in row if blk is not zero]
            loose = block_diagonalize([b0, b1], atol=1e-6)
            tight = block_diagonalize([b0, b1])
            for o in range(3):
                loose[0][0, 0, o], loose[1][0, 1, o]
            got = [dense(tight[s][i, j, o], (2, 2)).copy() for s in range(3) for i in range(2) for j in range(2) for o in range(3)]
            fresh = block_diagonalize([blocks_of(H0)[0][:1] + [zero], [zero] + blocks_of(H0)[1][1:]], atol=1e-12) if False else None
            ref = block_diagonalize([[[np.array(H0[:2, :2]), zero], [zero, np.array(H0[2:, 2:])]], [[H1[:2, :2], H1[:2, 2:]], [H1[2:, :2], H1[2:, 2:]]]])
            want = [dense(ref[s][i, j, o], (2, 2)) for s in range(3) for i in range(2) for j in range(2) for o in range(3)]
            for blk, nnz, arr, data in snap:
                if blk.nnz != nnz or not np.array_equal(blk.toarray(), arr) or not np.array_equal(np.array(blk.data), data):
                    fail("inputs_untouched", "a sparse block passed by the caller was modified in place (stored entries removed or zeroed)", format=fmt.__name__)
                    break
            err = max(float(np.abs(g - w).max()) for g, w in zip(got, want))
            if err > 1e-10:
                fail("inputs_untouched", "a computation depends on what another computation built from the same input blocks has evaluated", format=fmt.__name__, err=err)
        except Exception as e:  # noqa: BLE001
            fail("inputs_untouched", "pre-blocked sparse input raised", format=fmt.__name__, error=repr(e)[:300])


def section_solvers():
    """C16: each built-in solver returns a solution of its own equation."""
    global cases
    from pymablock.block_diagonalization import solve_sylvester_diagonal, solve_sylvester_direct, solve_sylvester_KPM
    from pymablock.linalg import direct_greens_function, ComplementProjector
    rng = np.random.default_rng(7)
    # diagonal solver: dense / sparse, real / complex energies, degenerate pairs inside a block
    for cplx in (False, True):
        EA = np.array([0.0, 0.0, 1.0]) + (1j * np.array([0.5, 0.5, -1.0]) if cplx else 0)
        EB = np.array([3.0, 4.5]) + (1j * np.array([0.25, 2.0]) if cplx else 0)
        eigs = (EA, EB)
        for (i, j) in ((0, 1), (1, 0), (0, 0), (1, 1)):
            Y = rng.normal(size=(len(eigs[i]), len(eigs[j]))) + 1j * rng.normal(size=(len(eigs[i]), len(eigs[j])))
            def coo_shuffled(a):
                c = sparse.coo_array(a)
                perm_ = np.random.default_rng(1).permutation(c.nnz)
                return sparse.coo_array((c.data[perm_], (c.row[perm_], c.col[perm_])), shape=c.shape)

            def csr_unsorted(a):
                c = sparse.csr_array(a)
                for r_ in range(c.shape[0]):
                    lo_, hi_ = c.indptr[r_], c.indptr[r_ + 1]
                    c.indices[lo_:hi_] = c.indices[lo_:hi_][::-1].copy()
                    c.data[lo_:hi_] = c.data[lo_:hi_][::-1].copy()
                c.has_sorted_indices = False
                return c
            # every storage order of a sparse right-hand side (the algorithm's own products arrive as csr or csc): row-major, column-major, shuffled triplets, unsorted indices
            for conv in (np.array, sparse.csr_array, sparse.csc_array, sparse.coo_array, coo_shuffled, csr_unsorted, sparse.lil_array, sparse.dia_array, sparse.csc_matrix):
                cases += 1
                ss = solve_sylvester_diagonal(eigs, atol=1e-12)
                V = dense(ss(conv(Y), (i, j)), Y.shape)
                d = eigs[i].reshape(-1, 1) - eigs[j]
                resid = d * V - Y
                far = np.abs(d) > 1e-12
                if not np.all(np.isfinite(V)):
                    fail("solvers", "diagonal solver returned a non-finite value", index=(i, j), kind=conv.__name__)
                elif np.abs(resid[far]).max(initial=0) > 1e-9 or np.abs(V[~far]).max(initial=0) != 0:
                    fail("solvers", "diagonal solver: E_a V_ab - V_ab E_b != Y_ab (or non-zero on a degenerate pair)", index=(i, j), kind=conv.__name__, cplx=cplx)
    # direct solver and Green's function
    n, na = 9, 3
    for cplx in (False, True):
        for degenerate in (False, True):
            cases += 1
            M = rng.normal(size=(n, n)) + (1j * rng.normal(size=(n, n)) if cplx else 0)
            H = M + M.conj().T
            w, v = np.linalg.eigh(H)
            if degenerate:
                w[1] = w[0]
                H = (v * w) @ v.conj().T
            vA, vB = v[:, :2], v[:, 2:na]
            h = sparse.csr_array(H)
            # the explicit levels need not be supplied in ascending energy order, and the members of a degenerate level need not be adjacent
            try:
                perm = [2, 0, 1] if not degenerate else [0, 2, 1]
                vP, wP = v[:, perm], w[perm]
                ssP = solve_sylvester_direct(h, [vP])
                Yp = rng.normal(size=(3, n)) + (1j * rng.normal(size=(3, n)) if cplx else 0)
                Vp = np.asarray(ssP(Yp, (0, 1)))
                Pp = np.eye(n) - vP @ vP.conj().T
                if np.abs(np.diag(wP) @ Vp - Vp @ H - Yp @ Pp).max() > 1e-7:
                    fail("solvers", "direct solver: E V - V H != Y P when the explicit levels are not supplied in ascending / grouped order", cplx=cplx, degenerate=degenerate,
                         err=float(np.abs(np.diag(wP) @ Vp - Vp @ H - Yp @ Pp).max()))
            except Exception as e:
                fail("solvers", "direct solver raised for unsorted explicit levels", cplx=cplx, degenerate=degenerate, error=repr(e)[:300])
            try:
                ss = solve_sylvester_direct(h, [vA, vB])
                for blk, vecs, es in ((0, vA, w[:2]), (1, vB, w[2:na])):
                    Y = rng.normal(size=(vecs.shape[1], n)) + (1j * rng.normal(size=(vecs.shape[1], n)) if cplx else 0)
                    V = np.asarray(ss(Y, (blk, 2)))
                    P = np.eye(n) - v[:, :na] @ v[:, :na].conj().T
                    lhs = np.diag(es) @ V - V @ H
                    if np.abs(lhs - Y @ P).max() > 1e-7 or np.abs(V @ P - V).max() > 1e-7:
                        fail("solvers", "direct solver: E V - V H != Y P on the implicit block (or V leaves the complement)", block=blk, cplx=cplx, degenerate=degenerate,
                             err=float(np.abs(lhs - Y @ P).max()))
                E0 = w[0]
                k = (v[:, :2] if degenerate else v[:, :1])
                gf = direct_greens_function(h, E0, kernel_vectors=k)
                vec = rng.normal(size=n) + (1j * rng.normal(size=n) if cplx else 0)
                x = gf(vec.copy())
                Pk = np.eye(n) - k @ k.conj().T
                if np.abs((E0 * np.eye(n) - H) @ x - Pk @ vec).max() > 1e-7 or np.abs(Pk @ x - x).max() > 1e-7:
                    fail("solvers", "direct_greens_function: (E-H)x != P v or x not in range of P", cplx=cplx, degenerate=degenerate)
            except Exception as e:
                fail("solvers", "direct solver raised", cplx=cplx, degenerate=degenerate, error=repr(e)[:300])
    # structured degenerate explicit levels: the rows whose equations are replaced by gauge constraints must give an INVERTIBLE k x k part of the kernel basis, whatever
    # the basis looks like - partners of very different extent (a bound state on two sites next to an extended state: the rows of largest norm are dependent),
    # symmetry-adapted vectors with components of equal modulus (the largest component of each vector in turn may select dependent rows), and their gauges
    n = 8
    loc = np.zeros(n)
    loc[:2] = (0.6, 0.8)
    ext = np.zeros(n)
    ext[2:] = 1 / np.sqrt(6)
    sa = np.zeros(n)
    sa[:4] = 0.5
    sb = np.zeros(n)
    sb[:4] = (0.5, 0.5, -0.5, -0.5)
    c7, s7 = np.cos(0.7), np.sin(0.7)
    for kname, k0 in (("bound + extended", np.stack([loc, ext], axis=1)), ("equal-modulus (symmetry-adapted)", np.stack([sa, sb], axis=1))):
        for gname, G in (("as given", np.eye(2)), ("swapped", np.array([[0, 1.0], [1.0, 0]])), ("rotated", np.array([[c7, -s7], [s7, c7]])), ("complex gauge", np.array([[1, 1j], [1j, 1]]) / np.sqrt(2))):
            cases += 1
            K = k0 @ G
            full = np.linalg.qr(np.hstack([k0, np.eye(n)]))[0][:, :n]           # orthonormal completion; the first two columns span the level
            wlev = np.concatenate(([1.25, 1.25], np.arange(2, n) * 1.5 + 0.25))
            H = (full * wlev) @ full.T
            H = H.astype(complex) if np.iscomplexobj(K) else H
            h = sparse.csr_array(H)
            try:
                gf = direct_greens_function(h, 1.25, kernel_vectors=K)
                vec = (np.arange(1, n + 1) / 4.0).astype(H.dtype)
                x = gf(vec.copy())
                Pk = np.eye(n) - K @ K.conj().T
                r1 = np.abs((1.25 * np.eye(n) - H) @ x - Pk @ vec).max()
                r2 = np.abs(Pk @ x - x).max()
                if not (r1 < 1e-7 and r2 < 1e-7):
                    fail("solvers", "direct_greens_function on a structured degenerate level: (E-H)x != P v or x not in the range of P", kernel=kname, gauge=gname, residual=float(r1), leak=float(r2))
                ss = solve_sylvester_direct(h, [K])
                Y = (np.arange(2 * n).reshape(2, n) % 5 - 2).astype(H.dtype) / 4
                V = np.asarray(ss(Y, (0, 1)))
                r3 = np.abs(1.25 * V - V @ H - Y @ Pk).max()
                if not r3 < 1e-7:
                    fail("solvers", "direct solver on a structured degenerate level: E V - V H != Y P", kernel=kname, gauge=gname, residual=float(r3))
            except Exception as e:  # noqa: BLE001
                fail("solvers", "direct solver raised on a structured degenerate level", kernel=kname, gauge=gname, error=repr(e)[:200])
    # non-Hermitian H_0 with biorthogonal explicit bases (R, L): random non-normal H_0, and H_0 whose left eigenvector vanishes on the
    # rows where the right eigenvector is largest (the equations that can be dropped are determined by the LEFT kernel vectors)
    for cplx in (False, True):
        for kind in ("random", "left-vanishes-on-right-pivot", "left-tiny-on-right-pivot", "degenerate"):
            cases += 1
            n = 7
            B = rng.normal(size=(n - 2, n - 2)) + (1j * rng.normal(size=(n - 2, n - 2)) if cplx else 0)
            wB, SB_ = np.linalg.eig(B)
            if not cplx:   # keep a real spectrum for real data
                wB = np.sort(rng.normal(size=n - 2)) * 2 + 5
                SB_ = rng.normal(size=(n - 2, n - 2))
            E0 = 0.7 + (0.3j if cplx else 0)
            if kind == "random":
                S = rng.normal(size=(n, n)) + (1j * rng.normal(size=(n, n)) if cplx else 0)
                w = np.concatenate(([E0, E0 + 1.5], wB))
                H = S @ np.diag(w) @ np.linalg.inv(S)
                Rf, Lf = S, np.linalg.inv(S).conj().T
                lev = [0]
            elif kind == "degenerate":
                S = rng.normal(size=(n, n)) + (1j * rng.normal(size=(n, n)) if cplx else 0)
                w = np.concatenate(([E0, E0], wB))
                H = S @ np.diag(w) @ np.linalg.inv(S)
                Rf, Lf = S, np.linalg.inv(S).conj().T
                lev = [0, 1]
            else:
                a, delta = 0.9, (0.0 if kind == "left-vanishes-on-right-pivot" else 1e-13)
                A = E0 * np.eye(2) - np.array([[1.0, -1 / a], [delta, -delta / a]])
                H = np.zeros((n, n), dtype=complex if cplx else float)
                H[:2, :2] = A
                H[2:, 2:] = SB_ @ np.diag(wB) @ np.linalg.inv(SB_)
                R0 = np.zeros((n, 1), dtype=H.dtype)
                R0[:2, 0] = (1.0, a)
                L0 = np.zeros((n, 1), dtype=H.dtype)
                L0[:2, 0] = (-np.conj(delta), 1.0)
                L0 = L0 / np.conj((L0.conj().T @ R0)[0, 0])
                Rf, Lf, lev = R0, L0, [0]
            K, L = Rf[:, lev], Lf[:, lev]
            if np.abs(L.conj().T @ K - np.eye(len(lev))).max() > 1e-9 or np.abs((E0 * np.eye(n) - H) @ K).max() > 1e-9 or np.abs(L.conj().T @ (E0 * np.eye(n) - H)).max() > 1e-9:
                fail("solvers", "battery error: (R, L) is not a biorthonormal pair of kernel bases", kind=kind)
                continue
            Pk = np.eye(n) - K @ L.conj().T
            h = sparse.csr_array(H)
            try:
                gf = direct_greens_function(h, E0, kernel_vectors=K, left_kernel_vectors=L)
                vec = rng.normal(size=n) + (1j * rng.normal(size=n) if cplx else 0)
                x = gf(vec.copy())
                err = np.abs((E0 * np.eye(n) - H) @ x - Pk @ vec).max()
                if not err < 1e-7 or not np.abs(Pk @ x - x).max() < 1e-7:
                    fail("solvers", "direct_greens_function with biorthogonal kernel bases: (E-H)x != P v or x not in range of P", cplx=cplx, kind=kind, err=float(err))
                ss = solve_sylvester_direct(h, [(K, L)], nonhermitian=True)
                Ed = np.diag(np.full(len(lev), E0))
                Y = rng.normal(size=(len(lev), n)) + (1j * rng.normal(size=(len(lev), n)) if cplx else 0)
                V = np.asarray(ss(Y, (0, 1)))
                err = np.abs(Ed @ V - V @ H - Y @ Pk).max()
                if not err < 1e-7 or not np.abs(V @ Pk - V).max() < 1e-7:
                    fail("solvers", "direct solver (non-Hermitian, right-implicit): E V - V H != Y P", cplx=cplx, kind=kind, err=float(err))
                Y = rng.normal(size=(n, len(lev))) + (1j * rng.normal(size=(n, len(lev))) if cplx else 0)
                V = np.asarray(ss(Y, (1, 0)))
                err = np.abs(H @ V - V @ Ed - Pk @ Y).max()
                if not err < 1e-7 or not np.abs(Pk @ V - V).max() < 1e-7:
                    fail("solvers", "direct solver (non-Hermitian, left-implicit): H V - V E != P Y", cplx=cplx, kind=kind, err=float(err))
            except Exception as e:
                fail("solvers", "direct solver / Green's function raised for a biorthogonal non-Hermitian problem", cplx=cplx, kind=kind, error=repr(e)[:300])
    # direct solver WITHOUT the nonhermitian flag (it only controls whether the left-implicit Green's functions are prepared) on an h_0 whose explicit
    # levels have genuinely complex energies: biorthogonal pairs of a random non-normal matrix, and a real non-reciprocal circulant (normal, complex spectrum);
    # right-implicit orientation, explicit-explicit pairs of a two-subspace setup, and both orientations with the flag
    for kind in ("non-normal", "real-circulant"):
        for flag in (None, False, True):
            cases += 1
            n = 7
            if kind == "non-normal":
                S = rng.normal(size=(n, n)) + 1j * rng.normal(size=(n, n)) + 3 * np.eye(n)
                wv = np.array([0.3 + 0.8j, -0.4 - 0.5j, 1.5 + 0.2j, 2.0 - 1.0j, -2.0 + 0.1j, 3.0 + 1.5j, -3.0 - 0.7j])
                H = S @ np.diag(wv) @ np.linalg.inv(S)
                Rf, Lf = S, np.linalg.inv(S).conj().T
            else:
                c = np.array([0.0, 1.0, 0.0, 0.0, 0.0, 0.0, 0.3])      # hopping 1 to the right, 0.3 to the left
                H = np.array([[c[(j - i) % n] for j in range(n)] for i in range(n)], dtype=float)
                F = np.exp(2j * np.pi * np.outer(np.arange(n), np.arange(n)) / n) / np.sqrt(n)
                wv = np.array([(F[:, m].conj() @ H @ F[:, m]) for m in range(n)])
                Rf, Lf = F, F
            if np.abs(H @ Rf - Rf @ np.diag(wv)).max() > 1e-9 or np.abs(Lf.conj().T @ Rf - np.eye(n)).max() > 1e-9:
                fail("solvers", "battery error: not an eigen-decomposition", kind=kind)
                continue
            levA, levB = [0, 1], [2]
            subs = [(Rf[:, levA], Lf[:, levA]), (Rf[:, levB], Lf[:, levB])]
            Pk = np.eye(n) - Rf[:, levA + levB] @ Lf[:, levA + levB].conj().T
            try:
                kwf = {} if flag is None else {"nonhermitian": flag}
                ss = solve_sylvester_direct(sparse.csr_array(H), subs, **kwf)
                for bi, lev in ((0, levA), (1, levB)):
                    Ed = np.diag(wv[lev])
                    Y = rng.normal(size=(len(lev), n)) + 1j * rng.normal(size=(len(lev), n))
                    V = np.asarray(ss(Y, (bi, 2)))
                    err = np.abs(Ed @ V - V @ H - Y @ Pk).max()
                    if not err < 1e-7:
                        fail("solvers", "direct solver, complex explicit energies, right-implicit: E V - V H != Y P", kind=kind, flag=flag, block=bi, err=float(err))
                    if flag:
                        Y = rng.normal(size=(n, len(lev))) + 1j * rng.normal(size=(n, len(lev)))
                        V = np.asarray(ss(Y, (2, bi)))
                        err = np.abs(H @ V - V @ Ed - Pk @ Y).max()
                        if not err < 1e-7:
                            fail("solvers", "direct solver, complex explicit energies, left-implicit: H V - V E != P Y", kind=kind, flag=flag, block=bi, err=float(err))
                Y = rng.normal(size=(2, 1)) + 1j * rng.normal(size=(2, 1))
                V = np.asarray(ss(Y, (0, 1)))
                err = np.abs(np.diag(wv[levA]) @ V - V @ np.diag(wv[levB]) - Y).max()
                if not err < 1e-9:
                    fail("solvers", "direct solver, complex explicit energies, explicit-explicit pair: E_A V - V E_B != Y", kind=kind, flag=flag, err=float(err))
            except Exception as e:
                fail("solvers", "direct solver raised for a non-Hermitian h_0 with complex explicit energies", kind=kind, flag=flag, error=repr(e)[:300])
    # KPM solver with and without exactly known auxiliary vectors
    n = 30
    M = rng.normal(size=(n, n))
    H = (M + M.T) / np.sqrt(n)
    w, v = np.linalg.eigh(H)
    vA = v[:, :2]
    for naux in (0, 1, 5):
        cases += 1
        opts = {"atol": 1e-7}
        if naux:
            opts["auxiliary_vectors"] = v[:, 2:2 + naux]
        with warnings.catch_warnings(record=True) as wlist:
            warnings.simplefilter("always")
            ss = solve_sylvester_KPM(H, (vA,), solver_options=opts)
            Y = rng.normal(size=(2, n))
            V = np.asarray(ss(Y, (0, 1)))
        P = np.eye(n) - vA @ vA.T
        resid = np.diag(w[:2]) @ V - V @ H - Y @ P
        warned = any(issubclass(x.category, RuntimeWarning) for x in wlist)
        if np.abs(resid).max() > 1e-3 * max(1.0, np.abs(Y).max()) and not warned:
            fail("solvers", "KPM solver: residual of E V - V H = Y P far above the requested accuracy and no convergence warning", aux=naux, err=float(np.abs(resid).max()))
    # KPM solver asked for the left-implicit orientation: it has no Green's function for it and must refuse (never answer with the explicit part alone)
    cases += 1
    try:
        with warnings.catch_warnings():
            warnings.simplefilter("ignore")
            ss = solve_sylvester_KPM(H, (vA,), solver_options={"atol": 1e-6})
            Vl = ss(rng.normal(size=(n, 2)), (1, 0))
        Pl = np.eye(n) - vA @ vA.T
        fail("solvers", "KPM solver: left-implicit request answered although H V - V E = P Y is not solved", residual=float(np.abs(H @ np.asarray(Vl) - np.asarray(Vl) @ np.diag(w[:2]) - Pl @ np.ones((n, 2))).max()))
    except NotImplementedError:
        pass
    except Exception as e:  # noqa: BLE001
        fail("solvers", "KPM solver: left-implicit request raised something else than NotImplementedError", error=repr(e)[:200])
    # KPM solver with every option left to its default and TWO explicit subspaces (explicit-explicit solves go through the diagonal solver)
    cases += 1
    try:
        vB = v[:, 2:4]
        with warnings.catch_warnings(record=True) as wlist:
            warnings.simplefilter("always")
            ss = solve_sylvester_KPM(H, (vA, vB))
            Yab = rng.normal(size=(2, 2))
            Vab = np.asarray(ss(Yab, (0, 1)))
        d = w[:2].reshape(-1, 1) - w[2:4]
        if np.abs(d * Vab - Yab).max() > 1e-8:
            fail("solvers", "KPM solver with default options: explicit-explicit block does not solve E_a V - V E_b = Y", err=float(np.abs(d * Vab - Yab).max()))
    except Exception as e:
        fail("solvers", "KPM solver with default options raised on an explicit-explicit block", error=repr(e)[:300])
    # a moment budget below the first batch of moments: a solution is returned together with a convergence warning
    cases += 1
    try:
        from pymablock.kpm import greens_function as kpm_gf
        with warnings.catch_warnings(record=True) as wlist:
            warnings.simplefilter("always")
            x = kpm_gf(np.diag([0.1, 0.5, -0.3]), 0.7, np.ones(3), atol=1e-12, max_moments=5)
        if not any(issubclass(q.category, RuntimeWarning) for q in wlist) or not np.all(np.isfinite(np.asarray(x, dtype=complex))):
            fail("solvers", "kpm.greens_function with a small moment budget: no convergence warning or non-finite result")
    except Exception as e:
        fail("solvers", "kpm.greens_function with max_moments < 10 raised instead of returning with a convergence warning", error=repr(e)[:200])


def section_illposed():
    """C20: every class of ill-posed input is rejected no later than the first evaluation that needs it."""
    global cases
    rng = np.random.default_rng(11)

    def herm(n, cplx=True):
        m = rng.normal(size=(n, n)) + (1j * rng.normal(size=(n, n)) if cplx else 0)
        return m + m.conj().T

    def expect(label, exc_types, thunk):
        global cases
        cases += 1
        try:
            out = thunk()
        except exc_types:
            return
        except Exception as e:
            fail("illposed", "ill-posed input raised an unexpected exception type", label=label, error=repr(e)[:200])
            return
        fail("illposed", "ill-posed input was accepted without error", label=label, result=repr(out)[:200])

    H1 = herm(4)
    # H_0 not block diagonal
    h0 = np.diag([0.0, 1.0, 3.0, 4.0]).astype(complex)
    h0[0, 3] = h0[3, 0] = 0.5
    expect("H0 not block diagonal", (ValueError,), lambda: block_diagonalize([h0, H1], subspace_indices=[0, 0, 1, 1]))
    # implicit mode: the supplied vectors do not span an invariant subspace of H_0 (H_0 couples the explicit block to the complement)
    hc = np.diag([0.0, 1.0, 3.0, 4.0, 6.0])
    hc[0, 3] = hc[3, 0] = 0.5
    I5 = np.eye(5)
    for direct in (True, False):
        for hermitian in (True, False):
            if not hermitian and not direct:
                continue
            for vecs, lab in (((I5[:, [0]],), "one explicit block"), ((I5[:, [0]], I5[:, [1]]), "two explicit blocks")):
                def thunk3(vecs=vecs, direct=direct, hermitian=hermitian):
                    with warnings.catch_warnings():
                        warnings.simplefilter("ignore")
                        res = block_diagonalize([sparse.csr_array(hc), sparse.csr_array(herm(5, False))], subspace_eigenvectors=vecs,
                                                direct_solver=direct, hermitian=hermitian, solver_options=({} if direct else {"atol": 1e-6}))
                        return res[0][0, 0, 2]
                expect(f"implicit mode, {lab}: H_0 couples an explicit vector to the complement (direct={direct}, hermitian={hermitian})", (ValueError,), thunk3)
    # coupled blocks share an energy: all request orders, both modes
    E = np.diag([0.0, 1.0, 1.0, 4.0]).astype(complex)
    for hermitian in (True, False):
        for first in ((0, 0, 2), (0, 1, 1), (1, 0, 1), (1, 1, 2)):
            for out in (0, 1, 2):
                if out == 0 and first[0] != first[1]:
                    continue   # off-diagonal H_tilde is zero by construction and needs no solve
                def thunk(hermitian=hermitian, first=first, out=out):
                    res = block_diagonalize([E, H1], subspace_indices=[0, 0, 1, 1], hermitian=hermitian)
                    return res[out][first]
                expect(f"shared energy between coupled blocks hermitian={hermitian} output={out} first={first}", (ValueError, RuntimeError), thunk)
        # one-directional coupling (only the lower-left block of the perturbation is non-zero)
        if not hermitian:
            L = np.zeros((4, 4), dtype=complex)
            L[2:, :2] = rng.normal(size=(2, 2))
            for first in ((1, 0, 1), (1, 1, 2), (0, 0, 2)):
                def thunk2(first=first, L=L):
                    res = block_diagonalize([E, L], subspace_indices=[0, 0, 1, 1], hermitian=False)
                    v = res[1][1, 0, 1]
                    return v
                expect(f"shared energy, lower-triangular coupling only, first={first}", (ValueError, RuntimeError), thunk2)
    # shared energy where the first-order coupling vanishes exactly AT the degenerate pair (a selection rule) and the pair is coupled only through an intermediate level at
    # the next order: the block pair is ill posed from its first use on - dense, sparse, integer dtype, exact-rational values, both modes, pair in the third block, two parameters
    Esel = np.diag([0.0, 1.0, 1.0, 3.0])
    Hsel = np.zeros((4, 4))
    for a_, b_, v_ in ((0, 1, 1.0), (0, 2, 2.0), (1, 3, -1.0), (2, 3, 0.5)):
        Hsel[a_, b_] = Hsel[b_, a_] = v_
    sel_inputs = {"dense": [Esel, Hsel], "sparse": [sparse.csr_array(Esel), sparse.csr_array(Hsel)], "integer H_0": [np.diag([0, 1, 1, 3]), Hsel],
                  "exact rational": [sympy.Matrix(np.diag([0, 1, 1, 3]).tolist()), sympy.Matrix(4, 4, lambda i, j: sympy.nsimplify(Hsel[i, j]))]}
    for lab_, ham_ in sel_inputs.items():
        for hermitian_ in (True, False):
            for out_, first_ in ((0, (0, 0, 2)), (1, (0, 1, 1)), (1, (0, 1, 2)), (0, (1, 1, 3))):
                expect(f"shared energy, degenerate pair coupled only at second order ({lab_}, hermitian={hermitian_}, output {out_}, first request {first_})", (ValueError,),
                       lambda ham_=ham_, hermitian_=hermitian_, out_=out_, first_=first_: (lambda r: [r[out_][first_], r[0][0, 0, 3], r[1][0, 1, 2]])(
                           block_diagonalize(list(ham_), subspace_indices=[0, 0, 1, 1], hermitian=hermitian_)))
    E3b = np.diag([5.0, 0.0, 1.0, 1.0, 3.0])
    H3b = np.zeros((5, 5))
    H3b[1:, 1:] = Hsel
    H3b[0, 1:] = H3b[1:, 0] = [0.3, 0.2, 0.0, 0.1]
    expect("shared energy with a selection rule, pair between the second and the third block", (ValueError,),
           lambda: (lambda r: [r[0][1, 1, 2], r[1][1, 2, 2]])(block_diagonalize([E3b, H3b], subspace_indices=[0, 1, 1, 2, 2])))
    Hx, Hy = np.zeros((4, 4)), np.zeros((4, 4))
    Hx[0, 1] = Hx[1, 0] = 1.0
    Hx[1, 3] = Hx[3, 1] = -1.0
    Hy[0, 2] = Hy[2, 0] = 2.0
    Hy[2, 3] = Hy[3, 2] = 0.5
    expect("shared energy with a selection rule, two parameters (pair first coupled at order (1, 1))", (ValueError,),
           lambda: (lambda r: [r[1][0, 1, 1, 0], r[1][0, 1, 0, 1], r[0][0, 0, 1, 1], r[1][0, 1, 1, 1]])(block_diagonalize([Esel, Hx, Hy], subspace_indices=[0, 0, 1, 1])))
    # elements selected for elimination at equal energies
    Ed = np.diag([0.0, 0.0, 2.0]).astype(complex)
    m = np.ones((3, 3), dtype=bool)
    np.fill_diagonal(m, False)
    expect("mask eliminates a degenerate pair", (ValueError,), lambda: block_diagonalize([Ed, herm(3)], fully_diagonalize={0: m}))
    # the same for every position of the offending entry: on the diagonal of the mask (an all-ones mask), only above or only below the diagonal (non-Hermitian mode),
    # in a mask for the second block, for levels equal only within atol, dense / sparse / exact-rational values
    Ed2 = np.diag([3.0, 0.0, 0.0 + 5e-13, 2.0]).astype(complex)
    H4 = herm(4)
    def m_of(entries, n=3):
        mm = np.zeros((n, n), dtype=bool)
        for e_ in entries:
            mm[e_] = True
        return mm
    for lab_, hermitian_, mask_ in (("all-ones mask (diagonal selected)", True, np.ones((3, 3), dtype=bool)), ("single diagonal entry", True, m_of([(1, 1)])),
                                    ("single diagonal entry, non-Hermitian mode", False, m_of([(2, 2)])), ("degenerate pair below the diagonal only", False, m_of([(1, 0)])),
                                    ("degenerate pair above the diagonal only", False, m_of([(0, 1)])), ("degenerate pair, symmetric", True, m_of([(0, 1), (1, 0)]))):
        for conv_name, conv_ in (("dense", np.array), ("sparse", sparse.csr_array)):
            expect(f"mask for block 1 eliminates between levels equal within atol: {lab_} ({conv_name})", (ValueError,),
                   lambda hermitian_=hermitian_, mask_=mask_, conv_=conv_: block_diagonalize([conv_(Ed2), conv_(H4)], subspace_indices=[0, 1, 1, 1], hermitian=hermitian_,
                                                                                                 fully_diagonalize={1: mask_})[0][1, 1, 1])
    # asymmetric Hermitian mask
    m2 = np.zeros((3, 3), dtype=bool)
    m2[0, 2] = True
    expect("asymmetric mask in Hermitian mode", (ValueError,), lambda: block_diagonalize([np.diag([0.0, 1.0, 2.0]), herm(3)], fully_diagonalize={0: m2}))
    # eigenvectors not orthonormal
    v = np.linalg.qr(rng.normal(size=(4, 4)))[0]
    bad = v.copy()
    bad[:, 0] *= 2
    expect("eigenvectors not orthonormal", (ValueError,), lambda: block_diagonalize([np.diag([0.0, 1.0, 3.0, 4.0]), herm(4, False)], subspace_eigenvectors=(bad[:, :2], bad[:, 2:])))
    # the same for every container type of the eigenvectors and several kinds of defect; H_0 stays block diagonal in the given (skewed) bases, so
    # the only thing wrong with the input is L^dagger R != 1
    x_ = sympy.Symbol("x_", real=True)
    h0q, h1q = np.diag([0, 0, 1, 3]), np.array([[0, 1, 2, 1], [1, 0, 1, 1], [2, 1, 0, 3], [1, 1, 3, 0]])
    I4 = np.eye(4, dtype=int)
    defects = {"first subspace not normalised": (2 * I4[:, :2], I4[:, 2:]), "second subspace not normalised": (I4[:, :2], I4[:, 2:] * 3),
               "degenerate subspace spanned by non-orthogonal vectors": (np.array([[1, 1], [0, 1], [0, 0], [0, 0]]), I4[:, 2:])}
    convs = {"ndarray": lambda a: np.array(a, dtype=float), "sparse array": lambda a: sparse.csr_array(np.array(a, dtype=float)),
             "sympy mutable": lambda a: sympy.Matrix(a.tolist()), "sympy immutable": lambda a: sympy.ImmutableMatrix(a.tolist()),
             "sympy immutable (as_immutable)": lambda a: sympy.Matrix(a.tolist()).as_immutable()}
    for dl, (va, vb) in defects.items():
        for cl, conv in convs.items():
            def thunk_o(va=va, vb=vb, conv=conv, cl=cl):
                if cl.startswith("sympy"):
                    ham = sympy.Matrix(h0q.tolist()) + x_ * sympy.Matrix(h1q.tolist())
                    return block_diagonalize(ham, symbols=[x_], subspace_eigenvectors=(conv(va), conv(vb)))[0][0, 0, 2]
                return block_diagonalize([h0q.astype(float), h1q.astype(float)], subspace_eigenvectors=(conv(va), conv(vb)))[0][0, 0, 2]
            expect(f"eigenvectors not orthonormal ({dl}; {cl})", (ValueError,), thunk_o)
    # biorthogonal pairs whose left vectors are not dual to the right ones (hermitian=False)
    Rq = np.eye(4)
    Lq = np.eye(4)
    Lq[1, 0] = 0.5
    for cl, conv in (("ndarray", lambda a: np.array(a, dtype=float)), ("sympy immutable", lambda a: sympy.ImmutableMatrix(sympy.Matrix(a.tolist()).applyfunc(sympy.nsimplify)))):
        def thunk_b(conv=conv, cl=cl):
            subs = [(conv(Rq[:, :2]), conv(Lq[:, :2])), (conv(Rq[:, 2:]), conv(Lq[:, 2:]))]
            if cl.startswith("sympy"):
                ham = sympy.Matrix(h0q.tolist()) + x_ * sympy.Matrix(h1q.tolist())
                return block_diagonalize(ham, symbols=[x_], subspace_eigenvectors=subs, hermitian=False)[0][0, 0, 2]
            return block_diagonalize([h0q.astype(float), h1q.astype(float)], subspace_eigenvectors=subs, hermitian=False)[0][0, 0, 2]
        expect(f"left vectors not dual to the right vectors ({cl})", (ValueError,), thunk_b)
    # malformed designations of states, blocks and orders
    hq0, hq1 = np.diag([0.0, 1.0, 3.0]), np.array([[1, 2, 1], [2, 0, 3], [1, 3, -1]]) / 8
    expect("negative label in subspace_indices", (ValueError,), lambda: block_diagonalize([hq0, hq1], subspace_indices=[0, -1, 1])[0][0, 0, 2])
    for fd in ((-1,), [2], {-1: np.zeros((1, 1), dtype=bool)}, {5: np.zeros((2, 2), dtype=bool)}):
        expect(f"fully_diagonalize names a block that does not exist ({fd!r})", (ValueError,), lambda fd=fd: block_diagonalize([hq0, hq1], subspace_indices=[0, 1, 1], fully_diagonalize=fd)[0][1, 1, 2])
    xq, yq = sympy.symbols("x_q y_q")
    for key in (1 / xq, sympy.sqrt(xq), xq ** sympy.Rational(3, 2), yq / xq ** 2):
        expect(f"dictionary key that is no monomial ({key})", (ValueError,), lambda key=key: block_diagonalize({sympy.S.One: hq0, xq: hq1, key: hq1})[0][0, 0, 1, 0])
    for lab_, ham_ in (("keys of different length", {(0, 0): hq0, (1, 0): hq1, (1,): hq1}), ("a negative order", {(0,): hq0, (1,): hq1, (-1,): hq1}),
                       ("a fractional order", {(0,): hq0, (1.5,): hq1}), ("bare integers as keys", {0: hq0, 1: hq1})):
        expect(f"dictionary with {lab_}", (ValueError,), lambda ham_=ham_: block_diagonalize(ham_, subspace_indices=[0, 0, 1])[0][0, 0, 1])
    # operator-valued masks must be adjoint-symmetric in Hermitian mode, like numeric ones
    from sympy.physics.quantum import Dagger as _Dg
    from sympy.physics.quantum.boson import BosonOp as _Bos
    from pymablock.number_ordered_form import NumberOperator as _Num
    aq = _Bos("a")
    H0o = sympy.Matrix([[_Num(aq) + sympy.Rational(3, 2), 0], [0, _Num(aq) - sympy.Rational(3, 2)]])
    H1o = sympy.Matrix([[0, aq + _Dg(aq)], [aq + _Dg(aq), 0]])
    expect("operator-valued mask that is not adjoint-symmetric in Hermitian mode", (ValueError,),
           lambda: block_diagonalize([H0o, H1o], fully_diagonalize=sympy.Matrix([[0, aq], [aq, 0]]))[0][0, 0, 1])
    # ... and must not select a number-conserving term of a diagonal element (it couples a level to itself, like a True on the diagonal of a numeric mask)
    for lab_, m_ in (("N_a", _Dg(aq) * aq), ("N_a + a + a^+", _Dg(aq) * aq + aq + _Dg(aq)), ("a constant", sympy.S.One), ("N_a in a 2x2 block", sympy.Matrix([[_Dg(aq) * aq, aq], [_Dg(aq), 0]]))):
        if isinstance(m_, sympy.MatrixBase):
            th_ = lambda m_=m_: block_diagonalize([H0o, H1o], fully_diagonalize=m_)[0][0, 0, 2]
        else:
            th_ = lambda m_=m_: block_diagonalize([wq_ * _Dg(aq) * aq, xq * (aq + _Dg(aq) + _Dg(aq) * aq)], symbols=[xq], fully_diagonalize={0: m_})[0][0, 0, 1]
        wq_ = sympy.Symbol("omega_m", positive=True)
        expect(f"operator-valued mask selecting a number-conserving diagonal term ({lab_})", (ValueError,), th_)
    # ... nor a term whose symbolic powers may all vanish (a^k with k >= 0 contains the number-conserving k = 0)
    kq = sympy.Symbol("k_q", integer=True, nonnegative=True)
    wq_ = sympy.Symbol("omega_m", positive=True)
    expect("operator-valued mask with a symbolic power that may be zero on the diagonal", (ValueError,),
           lambda: block_diagonalize([wq_ * _Dg(aq) * aq + _Dg(aq) * aq * _Dg(aq) * aq / 3, aq + _Dg(aq) + _Dg(aq) * aq], fully_diagonalize=aq ** kq + _Dg(aq) ** kq)[0][0, 0, 1])
    # second-quantized problems: levels of equal (operator-valued) unperturbed energy coupled by the perturbation
    bq = _Bos("b")
    wq, gq = sympy.symbols("omega_q g_q", positive=True)
    expect("second-quantized: two blocks with the same H_0 coupled by a constant", (ValueError,),
           lambda: block_diagonalize(sympy.Matrix([[wq * _Dg(aq) * aq, xq * gq], [xq * gq, wq * _Dg(aq) * aq]]), symbols=[xq], subspace_indices=[0, 1])[1][0, 1, 1])
    expect("second-quantized: resonant modes coupled by a hopping term", (ValueError,),
           lambda: block_diagonalize(wq * _Dg(aq) * aq + wq * _Dg(bq) * bq + xq * gq * (_Dg(aq) * bq + _Dg(bq) * aq), symbols=[xq])[0][0, 0, 2])
    # ... also when the resonance runs through a fermion or spin mode (the denominator omega N_s vanishes only where it is evaluated, N_s = 0)
    from sympy.physics.quantum.fermion import FermionOp as _Fer
    from sympy.physics.quantum import pauli as _pauli
    sq_, cq_, dq_ = _pauli.SigmaMinus("s"), _Fer("c"), _Fer("d")
    for lab_, H_ in (("boson - spin (resonant Jaynes-Cummings)", wq * _Dg(aq) * aq + wq * _Dg(sq_) * sq_ + xq * gq * (_Dg(aq) * sq_ + _Dg(sq_) * aq)),
                     ("boson - fermion", wq * _Dg(aq) * aq + wq * _Dg(cq_) * cq_ + xq * gq * (_Dg(aq) * cq_ + _Dg(cq_) * aq)),
                     ("fermion - fermion", wq * _Dg(cq_) * cq_ + wq * _Dg(dq_) * dq_ + xq * gq * (_Dg(cq_) * dq_ + _Dg(dq_) * cq_))):
        expect(f"second-quantized: resonance through a binary mode ({lab_})", (ValueError,), lambda H_=H_: block_diagonalize(H_, symbols=[xq])[0][0, 0, 2])
    # symbolic H_0 whose off-diagonal block is known to be non-zero (numbers, positive symbols, operators)
    pq = sympy.Symbol("p_q", positive=True)
    for lab_, c_ in (("a number", 1), ("a positive symbol", pq), ("an operator", aq + _Dg(aq))):
        expect(f"symbolic H_0 with a non-zero off-diagonal block ({lab_})", (ValueError,),
               lambda c_=c_: block_diagonalize(sympy.Matrix([[1, c_ + xq], [c_ + xq, 2]]), symbols=[xq], subspace_indices=[0, 1])[0][0, 0, 2])
    expect("dictionary with a symbolic H_0 that is not block diagonal", (ValueError,),
           lambda: block_diagonalize({sympy.S.One: sympy.Matrix([[1, 1], [1, 2]]), xq: sympy.Matrix([[0, 1], [1, 0]])}, subspace_indices=[0, 1])[0][0, 0, 2])
    # mutually exclusive options
    expect("subspace_indices and subspace_eigenvectors together", (ValueError,), lambda: block_diagonalize(
        [np.diag([0.0, 1.0, 3.0, 4.0]), herm(4, False)], subspace_eigenvectors=(v[:, :2], v[:, 2:]), subspace_indices=[0, 0, 1, 1]))
    expect("custom solve_sylvester with fully_diagonalize", (NotImplementedError,), lambda: block_diagonalize(
        [np.diag([0.0, 1.0, 3.0, 4.0]), herm(4, False)], subspace_indices=[0, 0, 1, 1], solve_sylvester=lambda Y, index: Y, fully_diagonalize=(0,)))
    expect("custom solve_sylvester with a single block (fully diagonalized by default)", (NotImplementedError,), lambda: block_diagonalize(
        [np.diag([0.0, 1.0, 3.0, 4.0]), herm(4, False)], solve_sylvester=lambda Y, index: Y))
    # symbolic non-Hermitian input in Hermitian mode
    x = sympy.Symbol("x", real=True)
    Hs = sympy.Matrix([[0, x], [2 * x, 1]])
    expect("symbolic non-Hermitian input in Hermitian mode", (ValueError,), lambda: block_diagonalize(Hs, symbols=[x], subspace_indices=[0, 1])[0][0, 0, 2])
    # ... in every container format (list, dictionary with order tuples / monomial keys, mutable and immutable matrices)
    H0s, H1s = sympy.diag(0, 1), sympy.Matrix([[0, 1], [2, 0]])
    for lab_, ham_ in (("list", [H0s, H1s]), ("dict, order tuples", {(0,): H0s, (1,): H1s}), ("dict, monomial keys", {sympy.S.One: H0s, x: H1s}), ("list, immutable matrices", [H0s.as_immutable(), H1s.as_immutable()])):
        expect(f"symbolic non-Hermitian term in Hermitian mode ({lab_})", (ValueError,), lambda ham_=ham_: block_diagonalize(ham_, subspace_indices=[0, 1])[0][0, 0, 2])
    # zero diagonal
    expect("zero unperturbed Hamiltonian", (ValueError,), lambda: block_diagonalize([np.zeros((2, 2)), herm(2, False)], subspace_indices=[0, 1]))
    # finiteness on accepted problems (incl. near-degenerate kept pairs, sparse)
    for fmt in ("dense", "sparse"):
        pb = Problem([0.0, 1e-14, 2.0, 3.0], [0, 0, 1, 1], seed=5, fmt=fmt)
        cases += 1
        Ht, U, Ud = block_diagonalize(pb.hamiltonian(), subspace_indices=pb.sub, fully_diagonalize=(0,))
        for o in range(4):
            for S in (Ht, U, Ud):
                if not np.all(np.isfinite(pb.assemble(S, (o,)))):
                    fail("illposed", "accepted well-posed numeric input produced a non-finite element", fmt=fmt, order=o)


def section_nh_finding():
    """Witness of known finding F-NH: non-Hermitian mode with a kept block carrying different unperturbed energies."""
    pb = Problem([0.0, 1.0, 2.5, 4.0], [0, 0, 1, 1], hermitian=False, seed=0)
    check_problem("nh_finding", pb, 2, label="F-NH witness: H0=diag(0,1,2.5,4), two blocks, hermitian=False")


def section_spm_finding():
    """Witness of known finding F-SPM (C14): legacy scipy.sparse *matrix* values (csr_matrix ...) mixed with dense values of another order in a block-shaped
    BlockSeries: csr_matrix + ndarray is a numpy.matrix, for which `*` in the mask closures (and in the dense solver branch) is a matrix product."""
    global cases
    cases += 1
    rng = np.random.default_rng(0)
    n = 4
    H0 = np.diag([0.0, 1.0, 3.0, 4.5])
    M = rng.normal(size=(n, n))
    H1 = (M + M.T) / 4
    M2 = rng.normal(size=(n, n))
    H2 = (M2 + M2.T) / 4

    def run(conv):
        H = BlockSeries(data={(0, 0, 0): conv(H0), (0, 0, 1): conv(H1), (0, 0, 2): H2}, shape=(1, 1), n_infinite=1)
        Ht, U, Ud = block_diagonalize(H)
        return [dense(Ht[0, 0, k], (n, n)) for k in range(4)]
    ref = run(np.array)
    got = run(sparse.csr_matrix)
    err = max(float(np.abs(np.asarray(g) - r).max()) for g, r in zip(got, ref))
    if err > 1e-9:
        fail("spm_finding", "csr_matrix values mixed with a dense term: H_tilde differs from the result for ndarray / csr_array values", err=err)


def section_tol_finding():
    """Witness of known finding F-TOL (C06): implicit mode, direct solver, solver option eigenvalue_atol larger than the spacing of two explicit levels that
    fully_diagonalize (with the default atol) asks to separate: the mask eliminates the pair, the explicit part of the solver (using eigenvalue_atol) does not."""
    global cases
    cases += 1
    rng = np.random.default_rng(1)
    n = 6
    H0 = np.diag([0.0, 1e-8, 1.0, 2.0, 3.0, 4.0])
    M = rng.normal(size=(n, n))
    H1 = (M + M.T) / 4
    V = np.eye(n)[:, :2]
    Ht, U, Ud = block_diagonalize([sparse.csr_array(H0), sparse.csr_array(H1)], subspace_eigenvectors=[V], fully_diagonalize=[0], solver_options={"eigenvalue_atol": 1e-6})
    Hf, Uf, _ = block_diagonalize([H0, H1], subspace_eigenvectors=[V, np.eye(n)[:, 2:]], fully_diagonalize=[0])
    a = dense(Ht[0, 0, 1], (2, 2))
    b = dense(Hf[0, 0, 1], (2, 2))
    u = dense(U[0, 0, 1], (2, 2))
    uf = dense(Uf[0, 0, 1], (2, 2))
    if np.abs(u - uf).max() > 1e-6 * max(1.0, np.abs(uf).max()) or np.abs(a - b).max() > 1e-9:
        fail("tol_finding", "implicit mode with eigenvalue_atol = 1e-6: the coupling between two explicit levels 1e-8 apart is dropped from H_tilde but not eliminated by U",
             U_implicit=float(np.abs(u).max()), U_explicit=float(np.abs(uf).max()))


def section_scale_finding():
    """Witness of known finding F-SCALE (C15): the shared-eigenvalue test of the diagonal solver uses np.isclose with its default ABSOLUTE tolerance 1e-8
    (besides the library's atol = 1e-12), so scaling the whole Hamiltonian by a small positive constant turns a well-posed problem into a rejected one."""
    global cases
    cases += 1
    rng = np.random.default_rng(0)
    H0 = np.diag([0.0, 1.0, 2.0, 3.0])
    M = rng.normal(size=(4, 4))
    H1 = (M + M.T) / 2
    ref = block_diagonalize([H0, H1], subspace_indices=[0, 0, 1, 1])[0][0, 0, 2]
    for s in (1e-6, 1e-9):
        try:
            got = block_diagonalize([s * H0, s * H1], subspace_indices=[0, 0, 1, 1])[0][0, 0, 2]
            if np.abs(got - s * ref).max() > 1e-9 * s:
                fail("scale_finding", "scaled Hamiltonian: H_tilde is not scaled", scale=s)
        except ValueError as e:
            fail("scale_finding", "scaling the whole Hamiltonian by a positive constant makes block_diagonalize reject it (gaps below np.isclose's absolute 1e-8, far above atol = 1e-12)", scale=s, error=str(e))


def section_kpm_shift_finding():
    """Witness of known finding F-KPM-SHIFT (C15): kpm.rescale refuses spectra whose width is below 0.25 % of the distance of their centre from zero, so
    adding a multiple of the identity to H_0 (ratio gap/|energy| = 8e-5 > 1e-5 here) makes the KPM solver raise."""
    global cases
    cases += 1
    n = 30
    h0 = sparse.diags([np.ones(n - 1), np.linspace(-1, 1, n), np.ones(n - 1)], [-1, 0, 1]).toarray()
    rng = np.random.default_rng(2)
    M = rng.normal(size=(n, n))
    h1 = (M + M.T) / 2
    w, v = np.linalg.eigh(h0)
    vals = {}
    for shift in (0.0, 100.0, 3000.0):
        try:
            with warnings.catch_warnings():
                warnings.simplefilter("ignore")
                Ht = block_diagonalize([sparse.csr_array(h0 + shift * np.eye(n)), sparse.csr_array(h1)], subspace_eigenvectors=[v[:, :2]], direct_solver=False,
                                       solver_options={"atol": 1e-7})[0]
                vals[shift] = np.asarray(Ht[0, 0, 2])
        except ValueError as e:
            fail("kpm_shift_finding", "KPM solver: adding a multiple of the identity to H_0 makes block_diagonalize raise", shift=shift, error=str(e)[:200])
    if 0.0 in vals and 100.0 in vals and np.abs(vals[0.0] - vals[100.0]).max() > 1e-4:
        fail("kpm_shift_finding", "KPM solver: second order changes under a shift of 100", err=float(np.abs(vals[0.0] - vals[100.0]).max()))


def section_impl_shared_finding():
    """Witness of known finding F-IMPL-SHARED (C20): in implicit mode an energy shared between an explicit level and the IMPLICIT block is not rejected with
    ValueError/TypeError/NotImplementedError: the direct solver fails with scipy's RuntimeError('Factor is exactly singular'), the KPM solver answers with
    finite numbers and a RuntimeWarning only."""
    global cases
    rng = np.random.default_rng(4)
    H0 = np.diag([0.0, 1.0, 1.0, 2.0, 3.0, 4.0])
    M = rng.normal(size=(6, 6))
    H1 = (M + M.T) / 2
    for direct in (True, False):
        cases += 1
        try:
            with warnings.catch_warnings():
                warnings.simplefilter("ignore")
                val = block_diagonalize([sparse.csr_array(H0), sparse.csr_array(H1)], subspace_eigenvectors=[np.eye(6)[:, :2]], direct_solver=direct,
                                        **({} if direct else {"solver_options": {"atol": 1e-6}}))[0][0, 0, 2]
            fail("impl_shared_finding", "implicit block shares an energy with an explicit level: accepted and answered", direct_solver=direct, value=np.asarray(val).round(3).tolist())
        except (ValueError, TypeError, NotImplementedError):
            pass
        except Exception as e:  # noqa: BLE001
            fail("impl_shared_finding", "implicit block shares an energy with an explicit level: rejected with an exception outside ValueError/TypeError/NotImplementedError",
                 direct_solver=direct, error=f"{type(e).__name__}: {e}"[:200])


def section_ortho_rtol_finding():
    """Witness of known finding F-ORTHO-RTOL (C20): _check_biorthonormality compares with np.allclose, whose default RELATIVE tolerance 1e-5 applies to the
    unit diagonal of the overlap, so eigenvectors whose norm is off by 2e-6 pass although atol = 1e-12; H_tilde is then off by about 1e-6."""
    global cases
    cases += 1
    rng = np.random.default_rng(0)
    H0 = np.diag([0.0, 1.0, 2.0, 3.0])
    M = rng.normal(size=(4, 4))
    H1 = (M + M.T) / 2
    v = np.eye(4)
    ref = block_diagonalize([H0, H1], subspace_eigenvectors=[v[:, :2], v[:, 2:]])[0][0, 0, 2]
    try:
        got = block_diagonalize([H0, H1], subspace_eigenvectors=[v[:, :2] * (1 + 2e-6), v[:, 2:]])[0][0, 0, 2]
        fail("ortho_rtol_finding", "eigenvectors with norm 1 + 2e-6 are accepted (atol = 1e-12)", error_in_H_tilde_2=float(np.abs(got - ref).max()))
    except ValueError:
        pass


def section_sqherm_finding():
    """Witness of known finding F-SQ-HERM (C20): the Hermiticity test of symbolic input is skipped for expressions that contain operators (work-around for a sympy
    issue), so a non-Hermitian second-quantized Hamiltonian is accepted in Hermitian mode and answered with the result for its Hermitian part."""
    global cases
    cases += 1
    from sympy.physics.quantum import Dagger as _Dg
    from sympy.physics.quantum.boson import BosonOp as _Bos
    a_ = _Bos("a")
    w_, g_ = sympy.symbols("omega g", positive=True)
    try:
        got = block_diagonalize(w_ * _Dg(a_) * a_ + g_ * a_, symbols=[g_])[0][0, 0, 2]
        fail("sqherm_finding", "the non-Hermitian operator-valued Hamiltonian omega a^+ a + g a is accepted in Hermitian mode", H_tilde_2=str(got))
    except ValueError:
        pass


def section_batch_finding():
    """Witness of known finding F-BATCH (C17): scipy >= 1.18 lets LinearOperator.matvec / rmatvec take a batch of row vectors of shape (..., N);
    ComplementProjector binds _matvec to its matrix routine, which contracts the FIRST axis."""
    global cases
    cases += 1
    from pymablock.linalg import ComplementProjector
    rng = np.random.default_rng(0)
    N = 5
    R = rng.normal(size=(N, 2))
    L = np.linalg.pinv(R).T
    P = ComplementProjector(R, L)
    D = np.eye(N) - R @ L.conj().T
    for B in (N, 3):
        X = rng.normal(size=(B, N))
        for nm, f, want in (("matvec", P.matvec, X @ D.T), ("rmatvec", P.rmatvec, X @ D.conj())):
            try:
                with warnings.catch_warnings():
                    warnings.simplefilter("ignore")
                    got = np.asarray(f(X))
                if got.shape != want.shape or np.abs(got - want).max() > 1e-9:
                    fail("batch_finding", f"{nm} of a batch of row vectors differs from the dense matrix applied to each row", batch=B)
            except Exception as e:  # noqa: BLE001
                fail("batch_finding", f"{nm} of a batch of row vectors raised", batch=B, error=f"{type(e).__name__}: {e}"[:160])


def section_projector():
    """C17: ComplementProjector against the dense matrix 1 - R L^H under every operator operation."""
    global cases
    from pymablock.linalg import ComplementProjector
    from scipy.sparse.linalg import aslinearoperator
    rng = np.random.default_rng(3)
    n, k = 6, 2

    def rnd(shape, cplx):
        return rng.normal(size=shape) + (1j * rng.normal(size=shape) if cplx else 0)
    for cR, cL, biorth in ((False, False, False), (True, True, False), (False, False, True), (True, True, True), (False, True, True), (True, False, True),
                           (False, False, "near"), (True, True, "near"), (False, True, "near"), (True, True, "equal-copy")):
        R = rnd((n, k), cR)
        if biorth == "near":
            # left vectors that differ from the right ones by 4e-6 (weak gain / loss): different matrices, although np.allclose(L, R) holds
            L = R + 2.0 ** -18 * rnd((n, k), cL)
        elif biorth == "equal-copy":
            L = R.copy()
        else:
            L = rnd((n, k), cL) if biorth else None
        P = ComplementProjector(R, L)
        D = np.eye(n) - R @ (R if L is None else L).conj().T
        x1, xm = rnd((n,), True), rnd((n, 3), True)
        Asp = sparse.csr_array(rnd((n, n), True))
        Ad = rnd((n, n), True)
        views = {"P": (P, D), "P.H": (P.H, D.conj().T), "P.T": (P.T, D.T), "conj(P)": (P.conjugate(), D.conj()),
                 "P.H.T": (P.H.T, D.conj()), "P.T.H": (P.T.H, D.conj()), "P.T.T": (P.T.T, D), "P.H.conjugate()": (P.H.conjugate(), D.T),
                 "conj(P).T": (P.conjugate().T, D.conj().T)}
        for nm, (op, mat) in views.items():
            cases += 1
            checks = {
                "op @ vec": (op @ x1, mat @ x1), "op @ mat": (op @ xm, mat @ xm), "op.matvec": (op.matvec(x1), mat @ x1),
                "op.rmatvec": (op.rmatvec(x1), mat.conj().T @ x1), "op.rmatmat": (op.rmatmat(xm), mat.conj().T @ xm),
                "mat @ op": (xm.T @ op, xm.T @ mat),
                "(A_sparse @ op) @ v": ((aslinearoperator(Asp) @ op) @ x1, Asp @ (mat @ x1)),
                "(op @ A_dense).H @ v": ((op @ aslinearoperator(Ad)).H @ x1, (mat @ Ad).conj().T @ x1),
                "v @ (A @ op)": (xm.T @ (aslinearoperator(Ad) @ op), xm.T @ (Ad @ mat)),
                "(op + op) @ v": ((op + op) @ x1, 2 * mat @ x1),
            }
            for cn, (got, want) in checks.items():
                try:
                    if not np.abs(np.asarray(got) - want).max() <= 1e-9 * max(1.0, np.abs(want).max()):
                        fail("projector", "operator result differs from the dense matrix 1 - R L^H", view=nm, check=cn, complexR=cR, complexL=cL, biorthogonal=biorth)
                except Exception as e:
                    fail("projector", "operator operation raised", view=nm, check=cn, error=repr(e)[:200])
            if op.shape != (n, n) or np.result_type(op.dtype, D.dtype) != D.dtype:
                fail("projector", "inconsistent shape or dtype", view=nm, shape=op.shape, dtype=str(op.dtype))
    # single-precision and extended-precision complex vectors (np.dtype == complex holds for complex128 only): same operations, tolerance of the lower precision
    for dtR, dtL in ((np.complex64, np.complex64), (np.complex64, np.float32), (np.float32, np.complex64), (np.complex64, None), (np.clongdouble, np.clongdouble), (np.complex128, np.complex64)):
        R = rnd((n, k), np.issubdtype(dtR, np.complexfloating)).astype(dtR)
        L = None if dtL is None else rnd((n, k), np.issubdtype(dtL, np.complexfloating)).astype(dtL)
        P = ComplementProjector(R, L)
        D = np.eye(n) - R.astype(complex) @ (R if L is None else L).astype(complex).conj().T
        x1, xm = rnd((n,), True), rnd((n, 3), True)
        Ad = rnd((n, n), True)
        for nm, (op, mat) in {"P": (P, D), "P.H": (P.H, D.conj().T), "P.T": (P.T, D.T), "conj(P)": (P.conjugate(), D.conj()), "P.T.H": (P.T.H, D.conj())}.items():
            cases += 1
            checks = {"op @ vec": (op @ x1, mat @ x1), "op @ mat": (op @ xm, mat @ xm), "op.rmatvec": (op.rmatvec(x1), mat.conj().T @ x1), "mat @ op": (xm.T @ op, xm.T @ mat),
                      "(op @ A_dense).H @ v": ((op @ aslinearoperator(Ad)).H @ x1, (mat @ Ad).conj().T @ x1)}
            for cn, (got, want) in checks.items():
                try:
                    if not np.abs(np.asarray(got, dtype=complex) - want).max() <= 1e-4 * max(1.0, np.abs(want).max()):
                        fail("projector", "operator result differs from the dense matrix 1 - R L^H (non-default vector dtype)", view=nm, check=cn, dtype_R=np.dtype(dtR).name,
                             dtype_L=None if dtL is None else np.dtype(dtL).name)
                except Exception as e:  # noqa: BLE001
                    fail("projector", "operator operation raised (non-default vector dtype)", view=nm, check=cn, dtype_R=np.dtype(dtR).name, error=repr(e)[:200])
    # idempotence when L^H R = 1
    cases += 1
    R = np.linalg.qr(rnd((n, k), True))[0]
    P = ComplementProjector(R)
    x = rnd((n,), True)
    if not np.allclose(P @ (P @ x), P @ x):
        fail("projector", "not idempotent for orthonormal vectors")
    Rb = rnd((n, k), True)
    Lb = np.linalg.pinv(Rb).conj().T
    Pb = ComplementProjector(Rb, Lb)
    if not np.allclose(Pb @ (Pb @ x), Pb @ x):
        fail("projector", "not idempotent for biorthonormal vectors")


if __name__ == "__main__":
    for OFF in OFFSETS:
        for name in sections:
            fn = globals().get("section_" + name)
            if fn is None:
                continue
            if OFF and name in ("nh_finding", "spm_finding", "tol_finding", "scale_finding", "kpm_shift_finding", "impl_shared_finding", "ortho_rtol_finding", "batch_finding", "projector", "spectrum", "spectrum_symbolic", "illposed"):
                continue   # deterministic sections
            try:
                fn()
            except Exception:
                import traceback
                fail(name, "battery section crashed", error=traceback.format_exc()[-1200:], seed_offset=OFF)
    print(json.dumps({"cases": cases, "failures": failures}))
    sys.exit(1 if failures else 0)
